// Package report: violations, known findings, evidence files, scratch directories.
package report

import (
	"bufio"
	"encoding/json"
	"fmt"
	"os"
	"path/filepath"
	"sort"
	"strconv"
	"strings"
	"sync"
	"time"
)

const VerifDir = "/verif"

// Violation is one counterexample. Sig is the normalised observation class (property-specific,
// stable across runs); Attrs are key=value facts about witness and observation that known
// findings match on.
type Violation struct {
	Property string            `json:"property"`
	Attrs    map[string]string `json:"attrs"`
	State    string            `json:"state"`           // canonical state id
	Input    string            `json:"input,omitempty"` // canonical input
	Observed string            `json:"observed,omitempty"`
	Expected string            `json:"expected,omitempty"`
	Detail   any               `json:"detail,omitempty"` // everything needed to replay
}

// Finding is one entry of known_findings.jsonl.
//
//	{"status":"open","property":"C01","id":"...","match":{"k":"v",...},"what":"..."}
//	{"status":"fixed","property":"C01","commit":"<sha>","what":"..."}
//
// An open finding covers a violation iff the property is equal and every key of match is present
// in the violation's attrs with an equal value. Fixed entries suppress nothing.
type Finding struct {
	Status   string            `json:"status"`
	Property string            `json:"property"`
	ID       string            `json:"id,omitempty"`
	Match    map[string]string `json:"match,omitempty"`
	Commit   string            `json:"commit,omitempty"`
	What     string            `json:"what"`
}

func LoadFindings() ([]Finding, error) {
	f, err := os.Open(filepath.Join(VerifDir, "known_findings.jsonl"))
	if err != nil {
		if os.IsNotExist(err) {
			return nil, nil
		}
		return nil, err
	}
	defer f.Close()
	var out []Finding
	sc := bufio.NewScanner(f)
	sc.Buffer(make([]byte, 1<<20), 1<<20)
	for sc.Scan() {
		l := strings.TrimSpace(sc.Text())
		if l == "" || strings.HasPrefix(l, "#") || strings.HasPrefix(l, "fixed:") {
			continue
		}
		var fd Finding
		if err := json.Unmarshal([]byte(l), &fd); err != nil {
			return nil, fmt.Errorf("known_findings.jsonl: %v: %s", err, l)
		}
		out = append(out, fd)
	}
	return out, sc.Err()
}

// matchOne: exact, or with a leading and/or trailing "*" wildcard.
func matchOne(want, got string) bool {
	switch {
	case strings.HasPrefix(want, "*") && strings.HasSuffix(want, "*") && len(want) >= 2:
		return strings.Contains(got, want[1:len(want)-1])
	case strings.HasSuffix(want, "*"):
		return strings.HasPrefix(got, strings.TrimSuffix(want, "*"))
	case strings.HasPrefix(want, "*"):
		return strings.HasSuffix(got, strings.TrimPrefix(want, "*"))
	}
	return got == want
}

func (f *Finding) Covers(v *Violation) bool {
	if f.Status != "open" || f.Property != v.Property || len(f.Match) == 0 {
		return false
	}
	for k, want := range f.Match {
		got, ok := v.Attrs[k]
		if !ok {
			return false
		}
		hit := false
		for _, alt := range strings.Split(want, "|") {
			if matchOne(alt, got) {
				hit = true
				break
			}
		}
		if !hit {
			return false
		}
	}
	return true
}

// Run collects what one check invocation saw and writes evidence at the end.
type Run struct {
	Property string
	Tier     string
	Seed     int64
	start    time.Time
	deadline time.Time

	mu          sync.Mutex
	findings    []Finding
	known       map[string]int // finding id -> count
	violations  []*Violation   // uncovered
	classes     map[string]int // attr-class -> count of uncovered
	Cov         map[string]any // coverage keys
	Assumptions []string
	samples     []any
	caps        []string
	Exhaustive  bool
	counters    map[string]int64
	// ReplayMode: no evidence file is written and known findings are not consulted.
	ReplayMode bool
}

// NewReplayRun returns a Run that only collects and prints violations (used by --replay).
func NewReplayRun(property string) *Run {
	return &Run{Property: property, Tier: "replay", start: time.Now(), deadline: time.Now().Add(time.Hour), known: map[string]int{}, classes: map[string]int{}, Cov: map[string]any{}, Exhaustive: true, counters: map[string]int64{}, ReplayMode: true}
}

func NewRun(property, tier string) *Run {
	seed, _ := strconv.ParseInt(os.Getenv("VERIF_SEED"), 10, 64)
	r := &Run{Property: property, Tier: tier, Seed: seed, start: time.Now(), known: map[string]int{}, classes: map[string]int{}, Cov: map[string]any{}, Exhaustive: true, counters: map[string]int64{}}
	fs, err := LoadFindings()
	if err != nil {
		fmt.Fprintln(os.Stderr, "internal:", err)
		os.Exit(2)
	}
	r.findings = fs
	budget := 25 * time.Minute
	if tier == "thorough" {
		budget = 3 * time.Hour
	}
	if s := os.Getenv("VERIF_BUDGET_S"); s != "" {
		if n, err := strconv.Atoi(s); err == nil {
			budget = time.Duration(n) * time.Second
		}
	}
	r.deadline = r.start.Add(budget)
	return r
}

// OutOfTime reports whether the internal deadline has passed; callers stop exploring, record a
// cap and exit 0 with exhaustive:false.
func (r *Run) OutOfTime() bool { return time.Now().After(r.deadline) }

func (r *Run) Cap(what string) {
	r.mu.Lock()
	defer r.mu.Unlock()
	r.caps = append(r.caps, what)
	r.Exhaustive = false
}

func (r *Run) Count(k string, n int64) {
	r.mu.Lock()
	r.counters[k] += n
	r.mu.Unlock()
}

func (r *Run) Counter(k string) int64 {
	r.mu.Lock()
	defer r.mu.Unlock()
	return r.counters[k]
}

func (r *Run) Sample(s any) {
	r.mu.Lock()
	if len(r.samples) < 12 {
		r.samples = append(r.samples, s)
	}
	r.mu.Unlock()
}

// Violate records a violation; returns true if it is NOT covered by a known finding.
func (r *Run) Violate(v *Violation) bool {
	v.Property = r.Property
	r.mu.Lock()
	defer r.mu.Unlock()
	for i := range r.findings {
		if r.findings[i].Covers(v) {
			r.known[r.findings[i].ID]++
			if fn := os.Getenv("VERIF_DUMP_KNOWN"); fn != "" && r.known[r.findings[i].ID] <= 5 {
				if f, err := os.OpenFile(fn, os.O_APPEND|os.O_CREATE|os.O_WRONLY, 0o644); err == nil {
					bs, _ := json.Marshal(map[string]any{"finding": r.findings[i].ID, "attrs": v.Attrs, "state": v.State, "input": v.Input, "observed": v.Observed})
					f.Write(append(bs, '\n'))
					f.Close()
				}
			}
			return false
		}
	}
	key := attrKey(v.Attrs)
	r.classes[key]++
	if fn := os.Getenv("VERIF_DUMP"); fn != "" {
		if f, err := os.OpenFile(fn, os.O_APPEND|os.O_CREATE|os.O_WRONLY, 0o644); err == nil {
			bs, _ := json.Marshal(map[string]any{"attrs": v.Attrs, "state": v.State, "input": v.Input, "observed": v.Observed})
			f.Write(append(bs, '\n'))
			f.Close()
		}
	}
	if r.classes[key] <= 3 && len(r.violations) < 200 {
		r.violations = append(r.violations, v)
	}
	return true
}

func attrKey(a map[string]string) string {
	ks := make([]string, 0, len(a))
	for k := range a {
		ks = append(ks, k)
	}
	sort.Strings(ks)
	var b strings.Builder
	for _, k := range ks {
		fmt.Fprintf(&b, "%s=%s;", k, a[k])
	}
	return b.String()
}

// Finish prints KNOWN-FINDING / VIOLATION lines, writes replay files and the evidence file, and
// returns the exit status.
func (r *Run) Finish() int {
	r.mu.Lock()
	defer r.mu.Unlock()
	var ids []string
	for id := range r.known {
		ids = append(ids, id)
	}
	sort.Strings(ids)
	seen := []string{}
	for _, id := range ids {
		for _, f := range r.findings {
			if f.ID == id {
				fmt.Printf("KNOWN-FINDING: property=%s %s: %s (seen %d times in this run)\n", r.Property, f.ID, f.What, r.known[id])
				seen = append(seen, id)
			}
		}
	}
	nviol := 0
	for _, n := range r.classes {
		nviol += n
	}
	os.MkdirAll(filepath.Join(VerifDir, "replays"), 0o755)
	if !r.ReplayMode {
		// replay files of earlier runs of this check and tier are stale now
		if old, err := filepath.Glob(filepath.Join(VerifDir, "replays", fmt.Sprintf("%s-%s-*.json", r.Property, r.Tier))); err == nil {
			for _, f := range old {
				os.Remove(f)
			}
		}
	}
	shown := map[string]bool{}
	for i, v := range r.violations {
		key := attrKey(v.Attrs)
		if shown[key] {
			continue
		}
		shown[key] = true
		fn := filepath.Join(VerifDir, "replays", fmt.Sprintf("%s-%s-%03d.json", r.Property, r.Tier, i))
		if r.ReplayMode {
			fn = "(replayed)"
		} else {
			bs, _ := json.MarshalIndent(v, "", " ")
			_ = os.WriteFile(fn, bs, 0o644)
		}
		fmt.Printf("VIOLATION property=%s replay=%s\n", r.Property, fn)
		fmt.Printf("  class: %s\n  state: %s\n  input: %s\n  observed: %s\n  expected: %s\n  (%d violations in this class)\n", key, v.State, trunc(v.Input, 300), trunc(v.Observed, 400), trunc(v.Expected, 400), r.classes[key])
	}
	if r.ReplayMode {
		if nviol > 0 {
			return 1
		}
		fmt.Println("replay: no violation reproduced")
		return 0
	}
	cov := map[string]any{}
	for k, v := range r.Cov {
		cov[k] = v
	}
	for k, v := range r.counters {
		if _, ok := cov[k]; !ok {
			cov[k] = v
		}
	}
	if len(r.samples) == 0 {
		r.samples = append(r.samples, "none")
	}
	cov["samples"] = r.samples
	cov["exhaustive"] = r.Exhaustive
	if r.caps == nil {
		r.caps = []string{}
	}
	cov["caps_hit"] = r.caps
	cov["known_findings_seen"] = seen
	cov["violation_classes"] = len(r.classes)
	for _, k := range []string{"states", "transitions", "traces_validated_against_impl"} {
		if _, ok := cov[k]; !ok {
			cov[k] = int64(0)
		}
	}
	if r.Assumptions == nil {
		r.Assumptions = []string{}
	}
	ev := map[string]any{
		"property_id": r.Property,
		"tier":        r.Tier,
		"seed":        r.Seed,
		"level":       "model_checking",
		"coverage":    cov,
		"assumptions": r.Assumptions,
		"wall_s":      time.Since(r.start).Seconds(),
		"violations":  nviol,
	}
	bs, _ := json.MarshalIndent(ev, "", " ")
	os.MkdirAll(filepath.Join(VerifDir, "evidence"), 0o755)
	if err := os.WriteFile(filepath.Join(VerifDir, "evidence", r.Property+".json"), bs, 0o644); err != nil {
		fmt.Fprintln(os.Stderr, "internal: write evidence:", err)
		return 2
	}
	fmt.Printf("%s %s: states=%v transitions=%v exhaustive=%v violations=%d known=%d wall=%.1fs\n", r.Property, r.Tier, cov["states"], cov["transitions"], r.Exhaustive, nviol, len(seen), time.Since(r.start).Seconds())
	if nviol > 0 {
		return 1
	}
	return 0
}

func trunc(s string, n int) string {
	if len(s) > n {
		return s[:n] + "…"
	}
	return s
}

// Scratch creates the per-run scratch root (RAM-backed when ram is true) and returns it with a
// cleanup function.
func Scratch(ram bool) (string, func()) {
	base := "/var/tmp"
	if ram {
		if st, err := os.Stat("/dev/shm"); err == nil && st.IsDir() {
			base = "/dev/shm"
		}
	}
	dir, err := os.MkdirTemp(base, "goag-verif.")
	if err != nil {
		fmt.Fprintln(os.Stderr, "internal: scratch:", err)
		os.Exit(2)
	}
	return dir, func() { os.RemoveAll(dir) }
}
