// Package spec is the term algebra of OpenAPI documents ("programs") that the checks enumerate.
// A Spec is a plain Go value; Doc() turns it into the JSON/YAML document fed to the real loader,
// and the same value is the "reference view" used by the reference models (they never look at
// goag's own data structures or output).
package spec

import (
	"bytes"
	"encoding/json"
	"fmt"
	"sort"
	"strings"
)

type Spec struct {
	Title    string      `json:"title,omitempty"`
	InfoDesc string      `json:"infoDesc,omitempty"`
	Servers  []Server    `json:"servers,omitempty"`
	Paths    []*PathItem `json:"paths,omitempty"`
	Comp     Components  `json:"comp,omitempty"`
	Security *[]SecReq   `json:"security,omitempty"` // nil = absent
}

type Server struct {
	URL  string            `json:"url"`
	Vars map[string]string `json:"vars,omitempty"`
}

type PathItem struct {
	Template string   `json:"template"`
	Params   []*Param `json:"params,omitempty"`
	Ops      []*Op    `json:"ops,omitempty"`
}

type Op struct {
	Method    string      `json:"method"` // upper-case
	ID        string      `json:"id,omitempty"`
	Summary   string      `json:"summary,omitempty"`
	Desc      string      `json:"desc,omitempty"`
	Params    []*Param    `json:"params,omitempty"`
	Body      *Body       `json:"body,omitempty"`
	Responses []*Response `json:"responses,omitempty"`
	Security  *[]SecReq   `json:"security,omitempty"` // nil = inherit
}

// SecReq is one alternative: a conjunction of scheme names.
type SecReq []string

type Param struct {
	Ref      string  `json:"ref,omitempty"` // name in components.parameters
	Name     string  `json:"name,omitempty"`
	In       string  `json:"in,omitempty"` // query|header|path|cookie
	Required bool    `json:"required,omitempty"`
	Desc     string  `json:"desc,omitempty"`
	Schema   *Schema `json:"schema,omitempty"`
	// UseContent puts the schema under content: application/json instead of schema.
	UseContent bool `json:"useContent,omitempty"`
	Deprecated bool `json:"deprecated,omitempty"`
}

// Media is one further entry of a content map (next to the ContentType/Schema pair of a Body or Response).
type Media struct {
	ContentType string  `json:"contentType"`
	Schema      *Schema `json:"schema,omitempty"`
}

type Body struct {
	Ref         string  `json:"ref,omitempty"` // name in components.requestBodies
	ContentType string  `json:"contentType,omitempty"`
	Schema      *Schema `json:"schema,omitempty"`
	Required    bool    `json:"required,omitempty"`
	Desc        string  `json:"desc,omitempty"`
	Also        []Media `json:"also,omitempty"` // further media types of the content map
}

type Header struct {
	Ref      string  `json:"ref,omitempty"` // name in components.headers
	Name     string  `json:"name,omitempty"`
	Required bool    `json:"required,omitempty"`
	Desc     string  `json:"desc,omitempty"`
	Schema   *Schema `json:"schema,omitempty"`
}

type Response struct {
	Status      string    `json:"status"`        // "200", "default", "2XX"
	Ref         string    `json:"ref,omitempty"` // name in components.responses
	Desc        string    `json:"desc,omitempty"`
	ContentType string    `json:"contentType,omitempty"`
	Schema      *Schema   `json:"schema,omitempty"`
	Headers     []*Header `json:"headers,omitempty"`
	Also        []Media   `json:"also,omitempty"` // further media types of the content map
}

type Prop struct {
	Name   string  `json:"name"`
	Schema *Schema `json:"schema"`
}

type Disc struct {
	Prop    string            `json:"prop"`
	Mapping map[string]string `json:"mapping,omitempty"` // value -> schema name
}

type Schema struct {
	Ref      string         `json:"ref,omitempty"` // name in components.schemas
	Type     string         `json:"type,omitempty"`
	Format   string         `json:"format,omitempty"`
	Nullable bool           `json:"nullable,omitempty"`
	Desc     string         `json:"desc,omitempty"`
	Items    *Schema        `json:"items,omitempty"`
	Props    []Prop         `json:"props,omitempty"`
	Required []string       `json:"required,omitempty"`
	AddBool  *bool          `json:"addBool,omitempty"` // additionalProperties: true/false
	Add      *Schema        `json:"add,omitempty"`     // additionalProperties: schema
	AllOf    []*Schema      `json:"allOf,omitempty"`
	OneOf    []*Schema      `json:"oneOf,omitempty"`
	AnyOf    []*Schema      `json:"anyOf,omitempty"`
	Disc     *Disc          `json:"disc,omitempty"`
	Enum     []any          `json:"enum,omitempty"`
	Ext      map[string]any `json:"ext,omitempty"`
}

type NamedSchema struct {
	Name   string  `json:"name"`
	Schema *Schema `json:"schema"`
}
type NamedParam struct {
	Name  string `json:"name"`
	Param *Param `json:"param"`
}
type NamedHeader struct {
	Name   string  `json:"name"`
	Header *Header `json:"header"`
}
type NamedBody struct {
	Name string `json:"name"`
	Body *Body  `json:"body"`
}
type NamedResponse struct {
	Name     string    `json:"name"`
	Response *Response `json:"response"`
}
type SecScheme struct {
	Key    string `json:"key"`
	Type   string `json:"type"`             // http|apiKey|oauth2|openIdConnect
	Scheme string `json:"scheme,omitempty"` // bearer|basic
	In     string `json:"in,omitempty"`
	Name   string `json:"name,omitempty"`
}

type Components struct {
	Schemas   []NamedSchema   `json:"schemas,omitempty"`
	Params    []NamedParam    `json:"params,omitempty"`
	Headers   []NamedHeader   `json:"headers,omitempty"`
	Bodies    []NamedBody     `json:"bodies,omitempty"`
	Responses []NamedResponse `json:"responses,omitempty"`
	Security  []SecScheme     `json:"security,omitempty"`
}

// ---- small constructors -------------------------------------------------------------------

func T(typ string) *Schema          { return &Schema{Type: typ} }
func TF(typ, format string) *Schema { return &Schema{Type: typ, Format: format} }
func RefTo(name string) *Schema     { return &Schema{Ref: name} }
func Arr(items *Schema) *Schema     { return &Schema{Type: "array", Items: items} }
func Obj(props ...Prop) *Schema     { return &Schema{Type: "object", Props: props} }
func P(name string, s *Schema) Prop { return Prop{Name: name, Schema: s} }
func (s *Schema) Req(names ...string) *Schema {
	c := *s
	c.Required = append(append([]string{}, s.Required...), names...)
	return &c
}
func (s *Schema) Null() *Schema             { c := *s; c.Nullable = true; return &c }
func (s *Schema) WithDesc(d string) *Schema { c := *s; c.Desc = d; return &c }
func Bool(b bool) *bool                     { return &b }

// Clone deep-copies through JSON (specs are small).
func (s *Spec) Clone() *Spec {
	bs, err := json.Marshal(s)
	if err != nil {
		panic(err)
	}
	var out Spec
	if err := json.Unmarshal(bs, &out); err != nil {
		panic(err)
	}
	return &out
}

func (s *Schema) Clone() *Schema {
	if s == nil {
		return nil
	}
	bs, _ := json.Marshal(s)
	var out Schema
	_ = json.Unmarshal(bs, &out)
	return &out
}

// ---- document ----------------------------------------------------------------------------

type M = map[string]any

func (s *Schema) Doc() M {
	if s == nil {
		return nil
	}
	if s.Ref != "" {
		return M{"$ref": "#/components/schemas/" + s.Ref}
	}
	m := M{}
	if s.Type != "" {
		m["type"] = s.Type
	}
	if s.Format != "" {
		m["format"] = s.Format
	}
	if s.Nullable {
		m["nullable"] = true
	}
	if s.Desc != "" {
		m["description"] = s.Desc
	}
	if s.Items != nil {
		m["items"] = s.Items.Doc()
	}
	if len(s.Props) > 0 {
		pm := M{}
		for _, p := range s.Props {
			pm[p.Name] = p.Schema.Doc()
		}
		m["properties"] = pm
	}
	if len(s.Required) > 0 {
		m["required"] = toAnyS(s.Required)
	}
	if s.AddBool != nil {
		m["additionalProperties"] = *s.AddBool
	}
	if s.Add != nil {
		m["additionalProperties"] = s.Add.Doc()
	}
	for k, l := range map[string][]*Schema{"allOf": s.AllOf, "oneOf": s.OneOf, "anyOf": s.AnyOf} {
		if len(l) > 0 {
			var a []any
			for _, x := range l {
				a = append(a, x.Doc())
			}
			m[k] = a
		}
	}
	if s.Disc != nil {
		d := M{"propertyName": s.Disc.Prop}
		if len(s.Disc.Mapping) > 0 {
			mm := M{}
			for k, v := range s.Disc.Mapping {
				mm[k] = "#/components/schemas/" + v
			}
			d["mapping"] = mm
		}
		m["discriminator"] = d
	}
	if len(s.Enum) > 0 {
		m["enum"] = s.Enum
	}
	for k, v := range s.Ext {
		m[k] = v
	}
	return m
}

func toAnyS(ss []string) []any {
	out := make([]any, len(ss))
	for i, s := range ss {
		out[i] = s
	}
	return out
}

func (p *Param) Doc() M {
	if p.Ref != "" {
		return M{"$ref": "#/components/parameters/" + p.Ref}
	}
	m := M{"name": p.Name, "in": p.In}
	if p.Required {
		m["required"] = true
	}
	if p.Desc != "" {
		m["description"] = p.Desc
	}
	if p.Deprecated {
		m["deprecated"] = true
	}
	if p.Schema != nil {
		if p.UseContent {
			m["content"] = M{"application/json": M{"schema": p.Schema.Doc()}}
		} else {
			m["schema"] = p.Schema.Doc()
		}
	}
	return m
}

func (h *Header) Doc() M {
	if h.Ref != "" {
		return M{"$ref": "#/components/headers/" + h.Ref}
	}
	m := M{}
	if h.Required {
		m["required"] = true
	}
	if h.Desc != "" {
		m["description"] = h.Desc
	}
	if h.Schema != nil {
		m["schema"] = h.Schema.Doc()
	}
	return m
}

func (b *Body) Doc() M {
	if b.Ref != "" {
		return M{"$ref": "#/components/requestBodies/" + b.Ref}
	}
	m := M{}
	if b.Required {
		m["required"] = true
	}
	if b.Desc != "" {
		m["description"] = b.Desc
	}
	ct := b.ContentType
	if ct == "" {
		ct = "application/json"
	}
	mt := M{}
	if b.Schema != nil {
		mt["schema"] = b.Schema.Doc()
	}
	cm := M{ct: mt}
	for _, a := range b.Also {
		am := M{}
		if a.Schema != nil {
			am["schema"] = a.Schema.Doc()
		}
		cm[a.ContentType] = am
	}
	m["content"] = cm
	return m
}

func (r *Response) Doc() M {
	if r.Ref != "" {
		return M{"$ref": "#/components/responses/" + r.Ref}
	}
	m := M{"description": r.Desc}
	if r.ContentType != "" || r.Schema != nil {
		ct := r.ContentType
		if ct == "" {
			ct = "application/json"
		}
		mt := M{}
		if r.Schema != nil {
			mt["schema"] = r.Schema.Doc()
		}
		cm := M{ct: mt}
		for _, a := range r.Also {
			am := M{}
			if a.Schema != nil {
				am["schema"] = a.Schema.Doc()
			}
			cm[a.ContentType] = am
		}
		m["content"] = cm
	}
	if len(r.Headers) > 0 {
		hm := M{}
		for _, h := range r.Headers {
			hm[h.Name] = h.Doc()
		}
		m["headers"] = hm
	}
	return m
}

func secDoc(l []SecReq) []any {
	out := []any{}
	for _, alt := range l {
		m := M{}
		for _, k := range alt {
			m[k] = []any{}
		}
		out = append(out, m)
	}
	return out
}

func (o *Op) Doc() M {
	m := M{}
	if o.ID != "" {
		m["operationId"] = o.ID
	}
	if o.Summary != "" {
		m["summary"] = o.Summary
	}
	if o.Desc != "" {
		m["description"] = o.Desc
	}
	if len(o.Params) > 0 {
		var a []any
		for _, p := range o.Params {
			a = append(a, p.Doc())
		}
		m["parameters"] = a
	}
	if o.Body != nil {
		m["requestBody"] = o.Body.Doc()
	}
	rm := M{}
	for _, r := range o.Responses {
		rm[r.Status] = r.Doc()
	}
	m["responses"] = rm
	if o.Security != nil {
		m["security"] = secDoc(*o.Security)
	}
	return m
}

func (s *Spec) Doc() M {
	title := s.Title
	if title == "" {
		title = "t"
	}
	info := M{"title": title, "version": "1"}
	if s.InfoDesc != "" {
		info["description"] = s.InfoDesc
	}
	d := M{"openapi": "3.0.3", "info": info}
	if len(s.Servers) > 0 {
		var a []any
		for _, sv := range s.Servers {
			m := M{"url": sv.URL}
			if len(sv.Vars) > 0 {
				vm := M{}
				for k, v := range sv.Vars {
					vm[k] = M{"default": v}
				}
				m["variables"] = vm
			}
			a = append(a, m)
		}
		d["servers"] = a
	}
	pm := M{}
	for _, pi := range s.Paths {
		im := M{}
		if len(pi.Params) > 0 {
			var a []any
			for _, p := range pi.Params {
				a = append(a, p.Doc())
			}
			im["parameters"] = a
		}
		for _, o := range pi.Ops {
			im[strings.ToLower(o.Method)] = o.Doc()
		}
		pm[pi.Template] = im
	}
	d["paths"] = pm
	cm := M{}
	if len(s.Comp.Schemas) > 0 {
		m := M{}
		for _, x := range s.Comp.Schemas {
			m[x.Name] = x.Schema.Doc()
		}
		cm["schemas"] = m
	}
	if len(s.Comp.Params) > 0 {
		m := M{}
		for _, x := range s.Comp.Params {
			m[x.Name] = x.Param.Doc()
		}
		cm["parameters"] = m
	}
	if len(s.Comp.Headers) > 0 {
		m := M{}
		for _, x := range s.Comp.Headers {
			m[x.Name] = x.Header.Doc()
		}
		cm["headers"] = m
	}
	if len(s.Comp.Bodies) > 0 {
		m := M{}
		for _, x := range s.Comp.Bodies {
			m[x.Name] = x.Body.Doc()
		}
		cm["requestBodies"] = m
	}
	if len(s.Comp.Responses) > 0 {
		m := M{}
		for _, x := range s.Comp.Responses {
			m[x.Name] = x.Response.Doc()
		}
		cm["responses"] = m
	}
	if len(s.Comp.Security) > 0 {
		m := M{}
		for _, x := range s.Comp.Security {
			sm := M{"type": x.Type}
			if x.Scheme != "" {
				sm["scheme"] = x.Scheme
			}
			if x.In != "" {
				sm["in"] = x.In
			}
			if x.Name != "" {
				sm["name"] = x.Name
			}
			if x.Type == "oauth2" {
				sm["flows"] = M{"implicit": M{"authorizationUrl": "https://x/y", "scopes": M{"r": "read"}}}
			}
			if x.Type == "openIdConnect" {
				sm["openIdConnectUrl"] = "https://x/.well-known"
			}
			m[x.Key] = sm
		}
		cm["securitySchemes"] = m
	}
	if len(cm) > 0 {
		d["components"] = cm
	}
	if s.Security != nil {
		d["security"] = secDoc(*s.Security)
	}
	return d
}

// YAML renders the document as multi-line JSON (which is YAML) with sorted keys: the bytes are a
// function of the Spec alone.
func (s *Spec) YAML() []byte { return MarshalDoc(s.Doc()) }

func MarshalDoc(d any) []byte {
	var buf bytes.Buffer
	enc := json.NewEncoder(&buf)
	enc.SetEscapeHTML(false)
	enc.SetIndent("", " ")
	if err := enc.Encode(d); err != nil {
		panic(fmt.Sprintf("spec marshal: %v", err))
	}
	return buf.Bytes()
}

// ---- lookups used by the reference models ---------------------------------------------------

func (s *Spec) SchemaByName(n string) *Schema {
	for _, x := range s.Comp.Schemas {
		if x.Name == n {
			return x.Schema
		}
	}
	return nil
}

// Resolve follows schema $refs (alias chains) to the defining schema.
func (s *Spec) Resolve(sc *Schema) *Schema {
	for i := 0; sc != nil && sc.Ref != "" && i < 10; i++ {
		sc = s.SchemaByName(sc.Ref)
	}
	return sc
}

func (s *Spec) ResolveParam(p *Param) *Param {
	for i := 0; p != nil && p.Ref != "" && i < 10; i++ {
		var n *Param
		for _, x := range s.Comp.Params {
			if x.Name == p.Ref {
				n = x.Param
			}
		}
		p = n
	}
	return p
}

func (s *Spec) ResolveHeader(h *Header) *Header {
	name := h.Name
	for i := 0; h != nil && h.Ref != "" && i < 10; i++ {
		var n *Header
		for _, x := range s.Comp.Headers {
			if x.Name == h.Ref {
				n = x.Header
			}
		}
		h = n
	}
	if h == nil {
		return nil
	}
	c := *h
	c.Name = name
	return &c
}

func (s *Spec) ResolveBody(b *Body) *Body {
	for i := 0; b != nil && b.Ref != "" && i < 10; i++ {
		var n *Body
		for _, x := range s.Comp.Bodies {
			if x.Name == b.Ref {
				n = x.Body
			}
		}
		b = n
	}
	return b
}

func (s *Spec) ResolveResponse(r *Response) *Response {
	status := r.Status
	for i := 0; r != nil && r.Ref != "" && i < 10; i++ {
		var n *Response
		for _, x := range s.Comp.Responses {
			if x.Name == r.Ref {
				n = x.Response
			}
		}
		r = n
	}
	if r == nil {
		return nil
	}
	c := *r
	c.Status = status
	return &c
}

// EffectiveParams returns the parameters that apply to an operation: operation-level ones plus
// path-item ones not overridden by (name, in).
func (s *Spec) EffectiveParams(pi *PathItem, o *Op) []*Param {
	var out []*Param
	seen := map[string]bool{}
	for _, p := range o.Params {
		rp := s.ResolveParam(p)
		if rp == nil {
			continue
		}
		seen[rp.In+"\x00"+rp.Name] = true
		out = append(out, rp)
	}
	for _, p := range pi.Params {
		rp := s.ResolveParam(p)
		if rp == nil || seen[rp.In+"\x00"+rp.Name] {
			continue
		}
		out = append(out, rp)
	}
	return out
}

func (s *Spec) Scheme(key string) *SecScheme {
	for i := range s.Comp.Security {
		if s.Comp.Security[i].Key == key {
			return &s.Comp.Security[i]
		}
	}
	return nil
}

// EffectiveSecurity: own list if present else the global one; nil/empty = public.
func (s *Spec) EffectiveSecurity(o *Op) []SecReq {
	if o.Security != nil {
		return *o.Security
	}
	if s.Security != nil {
		return *s.Security
	}
	return nil
}

func SortedKeys[V any](m map[string]V) []string {
	ks := make([]string, 0, len(m))
	for k := range m {
		ks = append(ks, k)
	}
	sort.Strings(ks)
	return ks
}
