package genrun

import (
	"crypto/sha256"
	"encoding/hex"
	"fmt"
	"io/fs"
	"os"
	"path/filepath"
	"runtime/debug"

	"github.com/getkin/kin-openapi/openapi3"
	"github.com/vkd/goag"
	"github.com/vkd/goag/generator"
)

// Step is one generator invocation of a history over one directory (C19).
type Step struct {
	Name   string `json:"name"`
	Spec   []byte `json:"spec"`
	Client bool   `json:"client,omitempty"`
	NoAPI  bool   `json:"noAPI,omitempty"`
	NoDNE  bool   `json:"noDNE,omitempty"` // -donotedit=false
}

// Tree is the canonical content of a directory: relative path -> sha256 ("dir" for directories).
type Tree map[string]string

type HistResult struct {
	Trees    []Tree            `json:"trees"`    // after each step
	Outcomes []string          `json:"outcomes"` // success | error: ... | panic: ...
	Blobs    map[string]string `json:"blobs"`    // sha -> content for every file seen
}

func ReadTree(dir string, blobs map[string]string) Tree {
	t := Tree{}
	filepath.WalkDir(dir, func(p string, d fs.DirEntry, err error) error {
		if err != nil || p == dir {
			return nil
		}
		rel, _ := filepath.Rel(dir, p)
		if d.IsDir() {
			t[rel] = "dir"
			return nil
		}
		bs, err := os.ReadFile(p)
		if err != nil {
			t[rel] = "unreadable"
			return nil
		}
		h := sha256.Sum256(bs)
		hs := hex.EncodeToString(h[:])
		t[rel] = hs
		if blobs != nil {
			blobs[hs] = string(bs)
		}
		return nil
	})
	return t
}

// RunHistory materialises init (path -> content) in j.OutDir and runs the steps in order.
func RunHistory(j *Job) *HistResult {
	res := &HistResult{Blobs: map[string]string{}}
	os.RemoveAll(j.OutDir)
	os.MkdirAll(j.OutDir, 0o755)
	for p, c := range j.Init {
		fp := filepath.Join(j.OutDir, p)
		os.MkdirAll(filepath.Dir(fp), 0o755)
		os.WriteFile(fp, []byte(c), 0o644)
	}
	for _, st := range j.Steps {
		outcome := "success"
		func() {
			defer func() {
				if p := recover(); p != nil {
					outcome = fmt.Sprintf("panic: %v\n%s", p, debug.Stack())
				}
			}()
			sw, err := openapi3.NewSwaggerLoader().LoadSwaggerFromData(st.Spec)
			if err != nil {
				outcome = "error: load: " + err.Error()
				return
			}
			g := goag.Generator{GenClient: st.Client, GenAPIHandler: !st.NoAPI, DoNotEdit: !st.NoDNE}
			if err := g.Generate(sw, j.OutDir, "gen", st.Spec, "openapi.yaml", "", generator.Config{}); err != nil {
				outcome = "error: " + err.Error()
			}
		}()
		res.Outcomes = append(res.Outcomes, outcome)
		res.Trees = append(res.Trees, ReadTree(j.OutDir, res.Blobs))
	}
	os.RemoveAll(j.OutDir)
	return res
}

func ShaHex(bs []byte) string {
	h := sha256.Sum256(bs)
	return hex.EncodeToString(h[:])
}
