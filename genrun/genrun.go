// Package genrun drives the real generator (github.com/vkd/goag, built from /repo's working
// tree) on one spec and applies the static oracles to what it wrote.
package genrun

import (
	"bytes"
	"crypto/sha256"
	"encoding/hex"
	"encoding/json"
	"fmt"
	"go/ast"
	"go/format"
	"go/importer"
	"go/parser"
	"go/token"
	"go/types"
	"io"
	"log"
	"os"
	"path/filepath"
	"runtime/debug"
	"sort"
	"strings"
	"sync"

	"github.com/getkin/kin-openapi/openapi3"
	"github.com/vkd/goag"
	"github.com/vkd/goag/generator"
	"github.com/vkd/goag/specification"
)

// Job is one invocation of the generator.
type Job struct {
	ID           string `json:"id"`
	Spec         []byte `json:"spec"`             // document handed to the loader
	Raw          []byte `json:"raw,omitempty"`    // bytes handed to Generate as specRaw (default: Spec)
	RawSet       bool   `json:"rawSet,omitempty"` // Raw is meaningful even when empty
	OutDir       string `json:"outDir"`
	Package      string `json:"package,omitempty"`
	Client       bool   `json:"client,omitempty"`
	NoAPI        bool   `json:"noAPI,omitempty"`
	DoNotEdit    bool   `json:"doNotEdit,omitempty"`
	Cors         bool   `json:"cors,omitempty"`
	IgnoreCustom bool   `json:"ignoreCustom,omitempty"`
	BasePath     string `json:"basePath,omitempty"` // --basepath flag
	SpecName     string `json:"specName,omitempty"` // spec handler name (default openapi.yaml)

	Static    bool              `json:"static,omitempty"`    // run the static oracles
	KeepFiles bool              `json:"keepFiles,omitempty"` // return file contents in the result
	Registry  bool              `json:"registry,omitempty"`  // write zz_registry.go for the batch driver
	Impl      bool              `json:"impl,omitempty"`      // compute response-interface implementer sets (C02)
	SpecConst bool              `json:"specConst,omitempty"` // evaluate the SpecFile constant (C13)
	Raws      [][]byte          `json:"raws,omitempty"`      // spec-file-only mode: contents to embed (C13 thorough)
	Steps     []Step            `json:"steps,omitempty"`     // history mode (C19)
	Init      map[string]string `json:"init,omitempty"`      // history mode: initial directory content
	// Pre: an earlier invocation run into the same output directory first (its outcome is not judged): the
	// job proper then meets a used directory
	Pre *Job `json:"pre,omitempty"`
}

const (
	LoadRejected = "load-rejected"
	GenError     = "generator-error"
	GenPanic     = "generator-panic"
	GenFatal     = "generator-fatal" // worker process died (stack overflow etc.)
	GenHang      = "generator-hang"  // no answer within the job timeout
	Success      = "success"
)

type Result struct {
	ID      string            `json:"id"`
	Outcome string            `json:"outcome"`
	Msg     string            `json:"msg,omitempty"`   // error text / panic value
	Stack   string            `json:"stack,omitempty"` // panic stack
	Files   []string          `json:"files,omitempty"` // names written, sorted
	Hash    map[string]string `json:"hash,omitempty"`
	Content map[string]string `json:"content,omitempty"`

	// static oracles
	SyntaxErr []string `json:"syntaxErr,omitempty"`
	Unstable  []string `json:"unstable,omitempty"` // files for which gofmt(f) != f
	TypeErr   []string `json:"typeErr,omitempty"`

	Impl         map[string][]string `json:"impl,omitempty"`      // response interface -> implementers
	Ctors        map[string]string   `json:"ctors,omitempty"`     // exported func New* -> result type name
	SpecConst    *string             `json:"specConst,omitempty"` // value of the SpecFile constant
	SpecConstErr string              `json:"specConstErr,omitempty"`
	SpecFiles    []SpecFileResult    `json:"specFiles,omitempty"`
	Hist         *HistResult         `json:"hist,omitempty"`
}

func (r *Result) Healthy() bool {
	return r.Outcome == Success && len(r.SyntaxErr) == 0 && len(r.Unstable) == 0 && len(r.TypeErr) == 0
}

func init() { log.SetOutput(io.Discard) }

// Run executes one job in this process.
func Run(j *Job) (res *Result) {
	res = &Result{ID: j.ID}
	if j.Pre != nil {
		pre := *j.Pre
		pre.Pre = nil
		pre.OutDir = j.OutDir
		pre.Static, pre.KeepFiles, pre.Registry, pre.Impl, pre.SpecConst = false, false, false, false, false
		Run(&pre)
	}
	loader := openapi3.NewSwaggerLoader()
	var sw *openapi3.Swagger
	func() {
		defer func() {
			if p := recover(); p != nil {
				res.Outcome = LoadRejected
				res.Msg = fmt.Sprintf("loader panic: %v", p)
			}
		}()
		var err error
		sw, err = loader.LoadSwaggerFromData(j.Spec)
		if err != nil {
			res.Outcome = LoadRejected
			res.Msg = err.Error()
		}
	}()
	if res.Outcome != "" {
		return res
	}
	raw := j.Raw
	if raw == nil && !j.RawSet {
		raw = j.Spec
	}
	if raw == nil {
		raw = []byte{}
	}
	pkg := j.Package
	if pkg == "" {
		pkg = "gen"
	}
	specName := j.SpecName
	if specName == "" {
		specName = "openapi.yaml"
	}
	var cfg generator.Config
	cfg.Cors.Enable = j.Cors
	cfg.CustomTypes.Ignore = j.IgnoreCustom
	g := goag.Generator{GenClient: j.Client, GenAPIHandler: !j.NoAPI, DoNotEdit: j.DoNotEdit}
	if err := os.MkdirAll(j.OutDir, 0o755); err != nil {
		res.Outcome = "internal"
		res.Msg = err.Error()
		return res
	}
	func() {
		defer func() {
			if p := recover(); p != nil {
				res.Outcome = GenPanic
				res.Msg = fmt.Sprint(p)
				res.Stack = string(debug.Stack())
			}
		}()
		err := g.Generate(sw, j.OutDir, pkg, raw, specName, j.BasePath, cfg)
		if err != nil {
			res.Outcome = GenError
			res.Msg = err.Error()
			return
		}
		res.Outcome = Success
	}()
	ents, _ := os.ReadDir(j.OutDir)
	res.Hash = map[string]string{}
	files := map[string][]byte{}
	for _, e := range ents {
		if e.IsDir() || !strings.HasSuffix(e.Name(), ".go") {
			continue
		}
		bs, err := os.ReadFile(filepath.Join(j.OutDir, e.Name()))
		if err != nil {
			continue
		}
		res.Files = append(res.Files, e.Name())
		h := sha256.Sum256(bs)
		res.Hash[e.Name()] = hex.EncodeToString(h[:])
		files[e.Name()] = bs
	}
	sort.Strings(res.Files)
	if j.KeepFiles {
		res.Content = map[string]string{}
		for k, v := range files {
			res.Content[k] = string(v)
		}
	}
	if res.Outcome != Success || !j.Static {
		return res
	}
	staticOracles(j, res, files, pkg)
	return res
}

var (
	exportsOnce sync.Once
	exportsMap  map[string]string
)

// ExportsFile is the path of a JSON map importpath -> export data file for the standard library
// (written once per run by the orchestrator with `go list -export`).
var ExportsFile = os.Getenv("VERIF_EXPORTS")

func lookupExport(path string) (io.ReadCloser, error) {
	exportsOnce.Do(func() {
		exportsMap = map[string]string{}
		bs, err := os.ReadFile(ExportsFile)
		if err == nil {
			_ = json.Unmarshal(bs, &exportsMap)
		}
	})
	f, ok := exportsMap[path]
	if !ok || f == "" {
		return nil, fmt.Errorf("package %q is not in the standard library", path)
	}
	return os.Open(f)
}

var (
	impMu   sync.Mutex
	impFset = token.NewFileSet()
	imp     types.Importer
)

func stdImporter() types.Importer {
	impMu.Lock()
	defer impMu.Unlock()
	if imp == nil {
		imp = importer.ForCompiler(impFset, "gc", lookupExport)
	}
	return imp
}

type lockedImporter struct{ types.Importer }

func (l lockedImporter) Import(p string) (*types.Package, error) {
	impMu.Lock()
	defer impMu.Unlock()
	return l.Importer.Import(p)
}

// TypeCheck parses and type-checks a set of files as one package against the standard library.
func TypeCheck(files map[string][]byte) (fset *token.FileSet, parsed []*ast.File, pkg *types.Package, info *types.Info, syntaxErrs, typeErrs []string) {
	fset = token.NewFileSet()
	names := make([]string, 0, len(files))
	for n := range files {
		names = append(names, n)
	}
	sort.Strings(names)
	for _, n := range names {
		f, err := parser.ParseFile(fset, n, files[n], parser.ParseComments|parser.SkipObjectResolution)
		if err != nil {
			syntaxErrs = append(syntaxErrs, firstLine(err.Error()))
			continue
		}
		parsed = append(parsed, f)
	}
	if len(syntaxErrs) > 0 {
		return
	}
	conf := types.Config{
		Importer: lockedImporter{stdImporter()},
		Error: func(err error) {
			if len(typeErrs) < 20 {
				typeErrs = append(typeErrs, err.Error())
			}
		},
	}
	info = &types.Info{Defs: map[*ast.Ident]types.Object{}, Uses: map[*ast.Ident]types.Object{}, Types: map[ast.Expr]types.TypeAndValue{}, Selections: map[*ast.SelectorExpr]*types.Selection{}}
	pkg, _ = conf.Check("gen", fset, parsed, info)
	return
}

func firstLine(s string) string {
	if i := strings.IndexByte(s, '\n'); i >= 0 {
		return s[:i]
	}
	return s
}

func staticOracles(j *Job, res *Result, files map[string][]byte, pkgName string) {
	for _, n := range res.Files {
		out, err := format.Source(files[n])
		if err == nil && !bytes.Equal(out, files[n]) {
			res.Unstable = append(res.Unstable, n)
		}
	}
	_, parsed, pkg, _, se, te := TypeCheck(files)
	res.SyntaxErr, res.TypeErr = se, te
	if len(se) > 0 || len(te) > 0 || pkg == nil {
		return
	}
	if j.Impl {
		res.Impl, res.Ctors = implementers(pkg)
	}
	if j.SpecConst {
		if o := pkg.Scope().Lookup("SpecFile"); o != nil {
			if c, ok := o.(*types.Const); ok {
				s := constString(c)
				res.SpecConst = &s
			} else {
				res.SpecConstErr = "SpecFile is not a constant"
			}
		} else {
			res.SpecConstErr = "no SpecFile constant"
		}
	}
	if j.Registry {
		src := RegistrySource(pkg, parsed)
		if err := os.WriteFile(filepath.Join(j.OutDir, "zz_registry.go"), src, 0o644); err != nil {
			res.Msg = "registry: " + err.Error()
		}
	}
}

// SpecFileJob renders only spec_file.go for each raw content, through the same two calls
// Generate makes (Generator.SpecFile + goag.WriteToFile), and evaluates the SpecFile constant.
type SpecFileResult struct {
	OK    bool   `json:"ok"`    // file parsed, type-checked and the constant equals the input
	Class string `json:"class"` // "" | not-go | type-error | differs | write-error
	Msg   string `json:"msg,omitempty"`
	Got   string `json:"got,omitempty"`
}

func RunSpecFiles(j *Job, raws [][]byte) (out []SpecFileResult, err error) {
	sw, err := openapi3.NewSwaggerLoader().LoadSwaggerFromData(j.Spec)
	if err != nil {
		return nil, err
	}
	sp, err := specification.ParseSwagger(sw, specification.SchemaOptions{})
	if err != nil {
		return nil, err
	}
	gen, err := generator.NewGenerator(sp, generator.Config{}, generator.PackageName("gen"),
		generator.IfOption(generator.SkipDoNotEdit(), !j.DoNotEdit), generator.BasePath(""), generator.SpecFilename("openapi.yaml"))
	if err != nil {
		return nil, err
	}
	os.MkdirAll(j.OutDir, 0o755)
	fn := filepath.Join(j.OutDir, "spec_file.go")
	for _, raw := range raws {
		var r SpecFileResult
		func() {
			defer func() {
				if p := recover(); p != nil {
					r.Class, r.Msg = "panic", fmt.Sprint(p)
				}
			}()
			if err := goag.RenderToFile(fn, gen.SpecFile(raw)); err != nil {
				r.Class, r.Msg = "write-error", err.Error()
				return
			}
			bs, _ := os.ReadFile(fn)
			r = JudgeSpecFile(bs, raw)
		}()
		out = append(out, r)
	}
	return out, nil
}

// JudgeSpecFile: spec_file.go must parse, type-check and define a constant SpecFile equal to raw.
func JudgeSpecFile(src, raw []byte) (r SpecFileResult) {
	_, _, pkg, _, se, te := TypeCheck(map[string][]byte{"spec_file.go": src})
	if len(se) > 0 {
		return SpecFileResult{Class: "not-go", Msg: se[0]}
	}
	if len(te) > 0 || pkg == nil {
		return SpecFileResult{Class: "type-error", Msg: strings.Join(te, "; ")}
	}
	c, ok := pkg.Scope().Lookup("SpecFile").(*types.Const)
	if !ok {
		return SpecFileResult{Class: "type-error", Msg: "no SpecFile constant"}
	}
	got := constString(c)
	if got != string(raw) {
		return SpecFileResult{Class: "differs", Got: got}
	}
	return SpecFileResult{OK: true}
}
