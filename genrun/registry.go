package genrun

import (
	"bytes"
	"fmt"
	"go/ast"
	"go/constant"
	"go/types"
	"sort"
	"strings"
)

func constString(c *types.Const) string {
	if c.Val().Kind() == constant.String {
		return constant.StringVal(c.Val())
	}
	return c.Val().ExactString()
}

// implementers computes, for every "response interface" (an interface whose only method is
// unexported and takes exactly one http.ResponseWriter), the named types T such that T or *T
// implements it; and the result type of every exported New* function.
func implementers(pkg *types.Package) (map[string][]string, map[string]string) {
	impl := map[string][]string{}
	ctors := map[string]string{}
	sc := pkg.Scope()
	var named []*types.TypeName
	for _, n := range sc.Names() {
		if tn, ok := sc.Lookup(n).(*types.TypeName); ok {
			named = append(named, tn)
		}
		if fn, ok := sc.Lookup(n).(*types.Func); ok && strings.HasPrefix(n, "New") {
			sig := fn.Type().(*types.Signature)
			if sig.TypeParams() == nil && sig.Results().Len() == 1 {
				ctors[n] = types.TypeString(sig.Results().At(0).Type(), func(*types.Package) string { return "" })
			}
		}
	}
	for _, itn := range named {
		if itn.IsAlias() {
			continue
		}
		it, ok := itn.Type().Underlying().(*types.Interface)
		if !ok || it.NumMethods() != 1 || it.Method(0).Exported() {
			continue
		}
		sig := it.Method(0).Type().(*types.Signature)
		if sig.Params().Len() != 1 || !strings.HasSuffix(sig.Params().At(0).Type().String(), "net/http.ResponseWriter") {
			continue
		}
		l := []string{}
		for _, tn := range named {
			if tn.IsAlias() || tn == itn {
				continue
			}
			nt, ok := tn.Type().(*types.Named)
			if !ok || nt.TypeParams().Len() > 0 {
				continue
			}
			if _, isIface := nt.Underlying().(*types.Interface); isIface {
				continue
			}
			if types.Implements(nt, it) || types.Implements(types.NewPointer(nt), it) {
				l = append(l, tn.Name())
			}
		}
		sort.Strings(l)
		impl[itn.Name()] = l
	}
	return impl, ctors
}

// RegistrySource emits a file, in the generated package itself, that hands the batch driver every
// non-generic function, named type, variable and string constant of the package by name. It is
// derived from go/types, so it follows whatever the generator emitted.
func RegistrySource(pkg *types.Package, _ []*ast.File) []byte {
	var b bytes.Buffer
	sc := pkg.Scope()
	fmt.Fprintf(&b, "package %s\n\nimport (\n\t\"reflect\"\n\n\t\"verif/drv\"\n)\n\n", pkg.Name())
	fmt.Fprintf(&b, "func init() {\n\tdrv.Register(&drv.Pkg{\n\t\tName: %q,\n", pkg.Name())
	var funcs, typs, vars, consts []string
	for _, n := range sc.Names() {
		switch o := sc.Lookup(n).(type) {
		case *types.Func:
			if sig := o.Type().(*types.Signature); sig.TypeParams() == nil && n != "init" && n != "_" {
				funcs = append(funcs, n)
			}
		case *types.TypeName:
			if n == "_" {
				continue
			}
			if nt, ok := o.Type().(*types.Named); ok && nt.TypeParams().Len() > 0 {
				continue
			}
			if al, ok := o.Type().(*types.Alias); ok && al.TypeParams().Len() > 0 {
				continue
			}
			typs = append(typs, n)
		case *types.Var:
			if n != "_" {
				vars = append(vars, n)
			}
		case *types.Const:
			if b, ok := o.Type().Underlying().(*types.Basic); ok && b.Info()&types.IsString != 0 && n != "_" {
				consts = append(consts, n)
			}
		}
	}
	b.WriteString("\t\tFuncs: map[string]any{\n")
	for _, n := range funcs {
		fmt.Fprintf(&b, "\t\t\t%q: %s,\n", n, n)
	}
	b.WriteString("\t\t},\n\t\tTypes: map[string]reflect.Type{\n")
	for _, n := range typs {
		fmt.Fprintf(&b, "\t\t\t%q: reflect.TypeOf((*%s)(nil)).Elem(),\n", n, n)
	}
	b.WriteString("\t\t},\n\t\tVars: map[string]any{\n")
	for _, n := range vars {
		fmt.Fprintf(&b, "\t\t\t%q: &%s,\n", n, n)
	}
	b.WriteString("\t\t},\n\t\tConsts: map[string]string{\n")
	for _, n := range consts {
		fmt.Fprintf(&b, "\t\t\t%q: string(%s),\n", n, n)
	}
	b.WriteString("\t\t},\n\t})\n}\n")
	return b.Bytes()
}
