package genrun

import (
	"bufio"
	"bytes"
	"encoding/json"
	"fmt"
	"io"
	"os"
	"os/exec"
	"path/filepath"
	"runtime"
	"strings"
	"sync"
	"time"
)

// WorkerMain is the body of `check __worker`: jobs on stdin, results on stdout, one JSON per line.
// The generator is not safe for concurrent use inside one process (package-level x/text Caser), and
// a spec with a reference cycle can overflow the stack (a fatal error recover() cannot catch), so
// every generator invocation happens in a sequential worker process.
func WorkerMain(extra func() any) {
	in := bufio.NewReaderSize(os.Stdin, 1<<20)
	out := bufio.NewWriter(os.Stdout)
	for {
		line, err := in.ReadBytes('\n')
		if len(line) > 0 {
			if bytes.HasPrefix(line, []byte("__stats")) {
				bs, _ := json.Marshal(extra())
				out.Write(bs)
				out.WriteByte('\n')
				out.Flush()
				continue
			}
			var j Job
			if jerr := json.Unmarshal(line, &j); jerr != nil {
				fmt.Fprintf(os.Stderr, "worker: bad job: %v\n", jerr)
				os.Exit(3)
			}
			var r *Result
			if len(j.Raws) > 0 {
				r = &Result{ID: j.ID, Outcome: Success}
				var err error
				r.SpecFiles, err = RunSpecFiles(&j, j.Raws)
				if err != nil {
					r.Outcome, r.Msg = "internal", err.Error()
				}
			} else if len(j.Steps) > 0 {
				r = &Result{ID: j.ID, Outcome: Success, Hist: RunHistory(&j)}
			} else {
				r = Run(&j)
			}
			bs, _ := json.Marshal(r)
			out.Write(bs)
			out.WriteByte('\n')
			out.Flush()
		}
		if err != nil {
			return
		}
	}
}

type worker struct {
	cmd    *exec.Cmd
	in     io.WriteCloser
	out    *bufio.Reader
	stderr *bytes.Buffer
}

type Pool struct {
	N     int
	Stats []json.RawMessage // per-worker stats collected at Close
	mu    sync.Mutex
}

func NewPool() *Pool { return &Pool{N: runtime.NumCPU()} }

func startWorker() (*worker, error) {
	exe, err := os.Executable()
	if err != nil {
		return nil, err
	}
	cmd := exec.Command(exe, "__worker")
	cmd.Env = append(os.Environ(), "GOMAXPROCS=2")
	w := &worker{cmd: cmd, stderr: &bytes.Buffer{}}
	cmd.Stderr = w.stderr
	w.in, err = cmd.StdinPipe()
	if err != nil {
		return nil, err
	}
	so, err := cmd.StdoutPipe()
	if err != nil {
		return nil, err
	}
	w.out = bufio.NewReaderSize(so, 1<<20)
	if err := cmd.Start(); err != nil {
		return nil, err
	}
	return w, nil
}

// JobTimeout bounds one generator invocation; a worker that does not answer in time is killed and the
// job is reported as a hang (the generator must terminate).
var JobTimeout = 60 * time.Second

var errHang = fmt.Errorf("worker did not answer within the job timeout")

func (w *worker) roundtrip(line []byte) ([]byte, error) { return w.roundtripT(line, JobTimeout) }

func (w *worker) roundtripT(line []byte, timeout time.Duration) ([]byte, error) {
	if _, err := w.in.Write(append(line, '\n')); err != nil {
		return nil, err
	}
	type rd struct {
		bs  []byte
		err error
	}
	ch := make(chan rd, 1)
	go func() {
		bs, err := w.out.ReadBytes('\n')
		ch <- rd{bs, err}
	}()
	select {
	case r := <-ch:
		return r.bs, r.err
	case <-time.After(timeout):
		w.cmd.Process.Kill()
		<-ch
		return nil, errHang
	}
}

func (w *worker) stop() {
	w.in.Close()
	_ = w.cmd.Wait()
}

// RunAll executes all jobs on the pool and returns results in job order. each, if non-nil, is
// called (serialised) as results arrive.
func (p *Pool) RunAll(jobs []*Job, each func(*Job, *Result)) []*Result {
	results := make([]*Result, len(jobs))
	idx := make(chan int, len(jobs))
	for i := range jobs {
		idx <- i
	}
	close(idx)
	var wg sync.WaitGroup
	n := p.N
	if n > len(jobs) {
		n = len(jobs)
	}
	for k := 0; k < n; k++ {
		wg.Add(1)
		go func() {
			defer wg.Done()
			var w *worker
			defer func() {
				if w != nil {
					if bs, err := w.roundtrip([]byte("__stats")); err == nil {
						p.mu.Lock()
						p.Stats = append(p.Stats, json.RawMessage(bytes.TrimSpace(bs)))
						p.mu.Unlock()
					}
					w.stop()
				}
			}()
			for i := range idx {
				j := jobs[i]
				var r *Result
				for attempt := 0; attempt < 2 && r == nil; attempt++ {
					if w == nil {
						var err error
						w, err = startWorker()
						if err != nil {
							r = &Result{ID: j.ID, Outcome: "internal", Msg: "start worker: " + err.Error()}
							break
						}
					}
					line, _ := json.Marshal(j)
					out, err := w.roundtrip(line)
					if err == errHang {
						_ = w.cmd.Wait()
						w = nil
						// a timeout is a wall-clock verdict: confirm it once on a fresh worker with three times the
						// budget before calling it a hang (a loaded machine must not raise an alarm)
						if cw, cerr := startWorker(); cerr == nil {
							out2, err2 := cw.roundtripT(line, 3*JobTimeout)
							if err2 == nil {
								var rr Result
								if json.Unmarshal(out2, &rr) == nil {
									w = cw
									r = &rr
									break
								}
							}
							if err2 != errHang {
								cw.stop()
							} else {
								_ = cw.cmd.Wait()
							}
							if err2 != nil && err2 != errHang {
								// died on the second attempt: report what killed it
								msg := tail(cw.stderr.String(), 4000)
								r = &Result{ID: j.ID, Outcome: GenFatal, Msg: firstLine(msg), Stack: msg}
								break
							}
						}
						r = &Result{ID: j.ID, Outcome: GenHang, Msg: fmt.Sprintf("no result after %v, and again none after %v on a fresh worker", JobTimeout, 3*JobTimeout)}
						break
					}
					if err != nil {
						// the worker died while running this job
						_ = w.cmd.Wait()
						msg := tail(w.stderr.String(), 4000)
						w = nil
						r = &Result{ID: j.ID, Outcome: GenFatal, Msg: firstLine(msg), Stack: msg}
						break
					}
					var rr Result
					if err := json.Unmarshal(out, &rr); err != nil {
						r = &Result{ID: j.ID, Outcome: "internal", Msg: "bad worker reply: " + err.Error()}
						break
					}
					r = &rr
				}
				results[i] = r
				if each != nil {
					p.mu.Lock()
					each(j, r)
					p.mu.Unlock()
				}
			}
		}()
	}
	wg.Wait()
	return results
}

func tail(s string, n int) string {
	if len(s) > n {
		// keep the head: a Go fatal error prints its reason first
		return s[:n]
	}
	return s
}

// PrepareExports writes the importpath -> export-data map of the standard library to dir and
// points workers at it.
func PrepareExports(dir string) error {
	cmd := exec.Command("go", "list", "-export", "-f", "{{.ImportPath}}\t{{.Export}}", "std")
	var errb bytes.Buffer
	cmd.Stderr = &errb
	out, err := cmd.Output()
	if err != nil {
		return fmt.Errorf("go list -export std: %v: %s", err, errb.String())
	}
	m := map[string]string{}
	for _, l := range strings.Split(string(out), "\n") {
		f := strings.Split(l, "\t")
		if len(f) == 2 && f[1] != "" && !strings.Contains(f[0], "internal") && !strings.HasPrefix(f[0], "vendor/") {
			m[f[0]] = f[1]
		}
	}
	bs, _ := json.Marshal(m)
	fn := filepath.Join(dir, "exports.json")
	if err := os.WriteFile(fn, bs, 0o644); err != nil {
		return err
	}
	os.Setenv("VERIF_EXPORTS", fn)
	ExportsFile = fn
	return nil
}
