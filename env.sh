export GOFLAGS=-mod=mod GOPROXY=off GOSUMDB=off GOTOOLCHAIN=local
export GOCACHE=${VERIF_GOCACHE:-/verif/.gocache}
export CGO_ENABLED=0
