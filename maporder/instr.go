// Package maporder rewrites, at check time, the CURRENT sources of goag (and kin-openapi's openapi3 and
// jsoninfo) so that every range over a map and every maps.Keys/Values call iterates in an order owned
// by verif/vmap. The copies are substituted with `go build -overlay`; /repo and the module cache stay
// untouched, and a change that introduces a new unsorted range is instrumented automatically.
package maporder

import (
	"bytes"
	"encoding/json"
	"fmt"
	"go/ast"
	"go/importer"
	"go/parser"
	"go/token"
	"go/types"
	"io"
	"os"
	"os/exec"
	"path/filepath"
	"sort"
	"strings"
)

type Site struct {
	ID   string `json:"id"`
	Pkg  string `json:"pkg"`
	File string `json:"file"`
	Line int    `json:"line"`
	Kind string `json:"kind"` // range | maps.Keys | maps.Values
}

type pkgInfo struct {
	ImportPath string
	Dir        string
	GoFiles    []string
	Export     string
}

func goList(args ...string) ([]pkgInfo, error) {
	cmd := exec.Command("go", append([]string{"list", "-e", "-export", "-json=ImportPath,Dir,GoFiles,Export"}, args...)...)
	cmd.Dir = "/verif"
	var errb bytes.Buffer
	cmd.Stderr = &errb
	out, err := cmd.Output()
	if err != nil {
		return nil, fmt.Errorf("go list %v: %v: %s", args, err, errb.String())
	}
	var res []pkgInfo
	dec := json.NewDecoder(bytes.NewReader(out))
	for dec.More() {
		var p pkgInfo
		if err := dec.Decode(&p); err != nil {
			return nil, err
		}
		res = append(res, p)
	}
	return res, nil
}

// Targets are the packages whose map iterations are owned.
var Targets = []string{"github.com/vkd/goag", "github.com/vkd/goag/specification", "github.com/vkd/goag/generator",
	"github.com/getkin/kin-openapi/openapi3", "github.com/getkin/kin-openapi/jsoninfo"}

type edit struct {
	start, end int
	text       string
}

// Instrument writes instrumented copies under outDir and returns the overlay map (original path ->
// replacement path) and the list of sites.
func Instrument(outDir string) (map[string]string, []Site, error) {
	deps, err := goList(append([]string{"-deps"}, Targets...)...)
	if err != nil {
		return nil, nil, err
	}
	exports := map[string]string{}
	byPath := map[string]pkgInfo{}
	for _, p := range deps {
		exports[p.ImportPath] = p.Export
		byPath[p.ImportPath] = p
	}
	fset := token.NewFileSet()
	imp := importer.ForCompiler(fset, "gc", func(path string) (io.ReadCloser, error) {
		f, ok := exports[path]
		if !ok || f == "" {
			return nil, fmt.Errorf("no export data for %s", path)
		}
		return os.Open(f)
	})
	overlay := map[string]string{}
	var sites []Site
	for _, tp := range Targets {
		p, ok := byPath[tp]
		if !ok {
			return nil, nil, fmt.Errorf("package %s not found", tp)
		}
		var files []*ast.File
		srcs := map[string][]byte{}
		for _, gf := range p.GoFiles {
			fn := filepath.Join(p.Dir, gf)
			src, err := os.ReadFile(fn)
			if err != nil {
				return nil, nil, err
			}
			f, err := parser.ParseFile(fset, fn, src, parser.ParseComments)
			if err != nil {
				return nil, nil, err
			}
			files = append(files, f)
			srcs[fn] = src
		}
		info := &types.Info{Types: map[ast.Expr]types.TypeAndValue{}, Uses: map[*ast.Ident]types.Object{}}
		conf := types.Config{Importer: imp, Error: func(error) {}}
		if _, err := conf.Check(tp, fset, files, info); err != nil {
			// type errors in goag itself would already have failed the checker build; tolerate partial info
			_ = err
		}
		short := tp[strings.LastIndex(tp, "/")+1:]
		for _, f := range files {
			fn := fset.File(f.Pos()).Name()
			src := srcs[fn]
			var edits []edit
			n := 0
			off := func(p token.Pos) int { return fset.Position(p).Offset }
			ast.Inspect(f, func(nd ast.Node) bool {
				switch x := nd.(type) {
				case *ast.RangeStmt:
					tv, ok := info.Types[x.X]
					if !ok {
						return true
					}
					if _, isMap := tv.Type.Underlying().(*types.Map); !isMap {
						return true
					}
					n++
					id := fmt.Sprintf("%s/%s:%d#%d", short, filepath.Base(fn), fset.Position(x.For).Line, n)
					sites = append(sites, Site{ID: id, Pkg: tp, File: fn, Line: fset.Position(x.For).Line, Kind: "range"})
					xs := string(src[off(x.X.Pos()):off(x.X.End())])
					hdr := fmt.Sprintf("for _, vmapP%d := range vmap.Pairs(%q, %s) ", n, id, xs)
					var bind []string
					asg := ":="
					if x.Tok == token.ASSIGN {
						asg = "="
					}
					if x.Key != nil {
						ks := string(src[off(x.Key.Pos()):off(x.Key.End())])
						if ks != "_" {
							bind = append(bind, fmt.Sprintf("%s %s vmapP%d.K", ks, asg, n))
						}
					}
					if x.Value != nil {
						vs := string(src[off(x.Value.Pos()):off(x.Value.End())])
						if vs != "_" {
							bind = append(bind, fmt.Sprintf("%s %s vmapP%d.V", vs, asg, n))
						}
					}
					if len(bind) == 0 {
						bind = append(bind, fmt.Sprintf("_ = vmapP%d", n))
					}
					edits = append(edits, edit{off(x.For), off(x.Body.Lbrace) + 1, hdr + "{ " + strings.Join(bind, "; ") + ";"})
				case *ast.CallExpr:
					sel, ok := x.Fun.(*ast.SelectorExpr)
					if !ok {
						return true
					}
					pid, ok := sel.X.(*ast.Ident)
					if !ok {
						return true
					}
					pn, ok := info.Uses[pid].(*types.PkgName)
					if !ok || !strings.HasSuffix(pn.Imported().Path(), "x/exp/maps") && pn.Imported().Path() != "maps" {
						return true
					}
					if sel.Sel.Name != "Keys" && sel.Sel.Name != "Values" {
						return true
					}
					if pn.Imported().Path() == "maps" {
						return true // std maps.Keys returns an iterator; handled as a range over func (not a map range)
					}
					n++
					id := fmt.Sprintf("%s/%s:%d#%d", short, filepath.Base(fn), fset.Position(x.Pos()).Line, n)
					sites = append(sites, Site{ID: id, Pkg: tp, File: fn, Line: fset.Position(x.Pos()).Line, Kind: "maps." + sel.Sel.Name})
					edits = append(edits, edit{off(x.Fun.Pos()), off(x.Lparen) + 1, fmt.Sprintf("vmap.%s(%q, ", sel.Sel.Name, id)})
				}
				return true
			})
			if len(edits) == 0 {
				continue
			}
			sort.Slice(edits, func(i, j int) bool { return edits[i].start > edits[j].start })
			out := append([]byte{}, src...)
			for _, e := range edits {
				out = append(out[:e.start], append([]byte(e.text), out[e.end:]...)...)
			}
			// add the import right after the package clause; the go1.18 build line lifts the file's
			// language version (kin-openapi declares go 1.14) so that the generic helper may be used
			pkgEnd := off(f.Name.End())
			// offsets before pkgEnd are unaffected by edits (all edits are inside function bodies)
			res := string(out[:pkgEnd]) + "\n\nimport vmap \"verif/vmap\"\n" + string(out[pkgEnd:])
			if !strings.Contains(res, "//go:build") {
				res = "//go:build go1.18\n\n" + res
			}
			// an unused x/exp/maps import would not compile: keep it referenced
			if strings.Contains(res, "golang.org/x/exp/maps\"") && !strings.Contains(string(out), "maps.") {
				res += "\nvar _ = maps.Keys[map[int]int]\n"
			}
			dst := filepath.Join(outDir, strings.ReplaceAll(tp, "/", "_")+"__"+filepath.Base(fn))
			if err := os.WriteFile(dst, []byte(res), 0o644); err != nil {
				return nil, nil, err
			}
			overlay[fn] = dst
		}
	}
	return overlay, sites, nil
}

// WriteOverlay writes the overlay JSON file for `go build -overlay`.
func WriteOverlay(path string, m map[string]string) error {
	bs, _ := json.MarshalIndent(map[string]any{"Replace": m}, "", " ")
	return os.WriteFile(path, bs, 0o644)
}
