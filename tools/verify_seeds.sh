#!/bin/bash
# Development-time: confirm every seeded change in a scratch worktree of /repo's HEAD:
# patch applies, repo builds, suite passes with it, its demo fails with it and passes without it.
# usage: tools/verify_seeds.sh [seed-dir-name ...]   -> writes /var/tmp/seedverify/<name>.result
. /verif/env.sh
export CGO_ENABLED=1
OUT=/var/tmp/seedverify; mkdir -p $OUT
WT=/var/tmp/wt-seedverify
git -C /repo worktree remove --force $WT 2>/dev/null; rm -rf $WT
git -C /repo worktree add -q --detach $WT HEAD || exit 2
SEEDDIR=${SEEDDIR:-/verif/seeded}
cd $SEEDDIR
names=${@:-$(ls -d C*)}
for n in $names; do
  d=$SEEDDIR/$n
  patch=$d/patch.diff; [ -f $d/patch.ported.diff ] && patch=$d/patch.ported.diff
  r=$OUT/$n.result; : > $r
  git -C $WT checkout -q -- . ; git -C $WT clean -fdq
  if ! git -C $WT apply $patch 2>>$r; then echo "applies=no" >> $r; continue; fi
  echo "applies=yes patch=$(basename $patch)" >> $r
  (cd $WT && go build ./... 2>&1 | tail -3) >> $r && echo "build=ok" >> $r
  if (cd $WT && go test -vet=off -count=1 ./... 2>&1 | grep -v "^ok\|no test files" | head -5 | grep -q .); then echo "suite=FAIL" >> $r; else echo "suite=pass" >> $r; fi
  if [ -x $d/demo/run.sh ] || [ -f $d/demo/run.sh ]; then
    (cd $d/demo && timeout 900 bash ./run.sh $WT > $OUT/$n.with.log 2>&1); echo "demo_with_patch_exit=$?" >> $r
    git -C $WT checkout -q -- . ; git -C $WT clean -fdq
    (cd $d/demo && timeout 900 bash ./run.sh $WT > $OUT/$n.without.log 2>&1); echo "demo_without_patch_exit=$?" >> $r
  else echo "demo=missing" >> $r; fi
  echo "$n: $(tr '\n' ' ' < $r)"
done
git -C /repo worktree remove --force $WT
