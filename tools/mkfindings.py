#!/usr/bin/env python3
"""Development-time helper (never run by a check): turn a VERIF_DUMP file of violations that were
triaged as genuine defects into known_findings.jsonl entries. Groups by (property, oracle/class
attrs) and keeps as match keys the attributes that are constant over the group.
usage: mkfindings.py <property> <dump> <group-keys,comma> [<prefix>]  -> prints JSON lines"""
import sys, json, collections, hashlib
prop, dump, gkeys = sys.argv[1], sys.argv[2], sys.argv[3].split(',')
skip = set(['diag'])
rows = [json.loads(l) for l in open(dump)]
groups = collections.OrderedDict()
for r in rows:
    a = r['attrs']
    k = tuple(a.get(g, '') for g in gkeys)
    groups.setdefault(k, []).append(r)
for k, rs in groups.items():
    keys = set().union(*[r['attrs'].keys() for r in rs])
    match = {}
    for kk in sorted(keys):
        if kk in skip: continue
        vals = set(r['attrs'].get(kk) for r in rs)
        if len(vals) == 1 and None not in vals:
            match[kk] = rs[0]['attrs'][kk]
    for g in gkeys:
        if g in rs[0]['attrs']:
            match[g] = rs[0]['attrs'][g]
    fid = prop + '-' + hashlib.sha1(json.dumps(match, sort_keys=True).encode()).hexdigest()[:8]
    ex = rs[0]
    what = ex['observed'] + ' [e.g. ' + ex['state'] + (' / ' + ex['input'] if ex.get('input') else '') + '; %d cells in the enumerated space]' % len(rs)
    print(json.dumps({"status": "open", "property": prop, "id": fid, "match": match, "what": what[:600]}, ensure_ascii=False))
