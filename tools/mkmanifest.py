#!/usr/bin/env python3
"""Regenerates /verif/MANIFEST.json from the table below (development-time helper)."""
import json, subprocess
ALL = ["C%02d" % i for i in range(1, 21)]
HOOK_COMMITS = ["4d3d7cf"]
CHECKS = {
 "C01": dict(engine="genrun", ref="§4 C01",
   technique="explicit-state enumeration of the spec lattice (level-1 cells × flag product), each state run through the real generator; static oracles go/parser + gofmt + go/types",
   text="Bounded-exhaustive model checking of the generator: every cell of the DESIGN §3 feature matrix (schema kind × position × required × nullable × ref/inline, name shapes and colliding name pairs, free-text shapes, status/content shapes, security kinds) × flag combinations is generated with the real goag and every written file is parsed, gofmt-checked and type-checked as one package against the standard library. No sampling; the evidence lists states, files judged and template arms reached.",
   note="go/types over gc export data of the installed standard library stands for 'compiles'; level 1 of the lattice (single cells × flags) — compositions of two cells are only covered where a family enumerates pairs (name pairs, security pairs). Cells containing a known finding are masked for other defects in the same file."),
 "C13": dict(engine="genrun", ref="§4 C13",
   technique="exhaustive enumeration of spec-file contents (all byte strings over a 7-letter alphabet up to length 4 / 6, a second alphabet of non-source bytes, every repository spec in 4 physical forms) through the real generator; oracle = go/constant value of SpecFile == input",
   text="Every spec-file content in the bounded space is embedded by the real generator (public Generate for lengths <= 4 and real documents, the same Generator.SpecFile+WriteToFile pair for lengths 5-6) and the compiled value of the SpecFile constant is compared byte for byte with the input. The served half (GET <base>/<spec name> through compiled packages, middlewares bypassed, repeated requests) is checked on compiled packages when the batch engine is available.",
   note="content alphabet {backtick, double quote, backslash, LF, CR, $, letter} plus {NUL, 0xFF, BOM, two-byte rune}; longer files are represented by the repository's own specs in as-is / CRLF / no-trailing-newline / one-line-JSON form"),
 "C19": dict(engine="genrun", ref="§7",
   technique="explicit-state search over output-directory states with real Generate transitions: every history of length <= 3 literally, plus breadth-first search with state hashing to a fixpoint (thorough); differential directory model",
   text="States are canonical directory contents, transitions are real generator invocations (library, and the CLI binary once per event to bind the two). Quick runs all 584 histories of length <= 3 over the property's 8-event alphabet from the empty directory and all histories of length <= 2 from directories holding user files / stale goag-named files; thorough runs 12 events to length 3 from all three initial states and a BFS to the fixpoint including a failing invocation. Invariant per transition: owned files equal a fresh run of the last invocation, other files untouched, repeating the invocation is a no-op.",
   note="the five owned names are defined by the model (README/flags), not read from goag; equal directory contents are assumed to have equal futures (Generate never reads file contents)"),
 "C15": dict(engine="genrun", ref="§4 C15",
   technique="exhaustive single-fault enumeration: every structural mutation of every node of every corpus document, each loaded and generated in a worker process; oracle = no panic / no process death, error carries a locator, CLI exit status agrees",
   text="For every corpus document (repository specs and a spread of the level-1 cells) every single structural mutation at every node is applied (delete, null, five retypings, three $ref retargets, ancestor references creating non-component cycles, seven type and twelve format substitutions, parameter location swaps, schema moved under content, non-string server-variable defaults, 2-cycles between components). Each mutant the loader accepts is run through the real generator in a worker process (so stack overflows are observed, not fatal to the check); panics, process deaths, empty errors and errors that name no key of the mutated node's path are violations; a deterministic subset and every crashing mutant is re-run through the real CLI binary for the exit-status half.",
   note="single mutations only (pairs are not enumerated); documents rejected by the kin-openapi loader are counted, not judged; the locator oracle is deliberately weak: any specific key on the JSON-pointer path of the mutated node (or the referenced name) appearing in the message satisfies it"),
 "C03": dict(engine="batch+drv", ref="§4 C03",
   technique="explicit-state enumeration of canonical path-template sets × method sets × base-path forms (each generated and compiled), and for each state ALL request paths up to depth 5 over the alphabet × methods, compared with a reference OpenAPI path matcher",
   text="Every canonical set of 1-3 pairwise non-equivalent templates over {a, b, {x}, {y}, empty last segment} (depth <= 3 quick, <= 4 thorough) × method sets × 11 base-path forms is generated with the real goag, compiled, and driven with every request path of <= 5 segments over {a, b, c, empty} under 2-7 prefixes (base path, none, off-by-one, foreign) × {GET, POST, DELETE, OPTIONS} × {custom, default} not-found handler (3.5e7 requests quick). Each observation (which handler field ran / not found, SchemaPath seen by a middleware) must lie in the set the reference matcher allows.",
   note="template sets are canonicalised under a<->b and x<->y; an empty request segment aligned with a variable and best-path-lacks-method are don't-cares (DESIGN §11); segment alphabet is two literals and two variable names"),
 "C05": dict(engine="batch+drv", ref="§4 C05",
   technique="enumeration of template shapes × type assignments × declaration order × base forms (compiled), all request paths over literal + per-type lexeme alphabets; oracle = reference lexer on the segment aligned with each variable",
   text="For 15 template shapes (incl. two-template sets with shared prefixes), every assignment of 5 (quick) / 10 (thorough) parameter types incl. $ref-to-primitive to the first two variables, parameters declared at path-item level in template order or at operation level reversed, under 2-6 base-path forms: every request path over {a, b, empty} ∪ the lexeme tables (canonical, boundary, out-of-range, garbage) of the assigned types up to the template depth is served; for every dispatched request Parse() must yield exactly the typed value of the aligned segment, or fail naming a failing parameter; never succeed on an empty or out-of-space segment.",
   note="only dispatched requests are judged (mis-dispatch is C03's); lexemes Go accepts beyond the OpenAPI lexical space are don't-cares; at most two variables per template vary independently"),
 "C16": dict(engine="batch+drv", ref="§4 C16",
   technique="enumeration of routing states × {secured, public} × cors on/off (compiled), all requests of depth <= 3 × methods × token states under middleware stacks of length 0..4; oracle = exact enter/auth/handler/leave trace",
   text="For every C03 template set of the tier with and without a bearer requirement on the first operation and cors on/off, every request (paths <= 3 segments × GET/POST/DELETE(/OPTIONS) × token absent/good/bad, plus the spec-file request) is served under middleware stacks of length 0-4 and with custom/default not-found handler. Routed requests (handler ran, authenticator ran, or 401) must show enter 1..n, [auth], [handler], leave n..1 with every middleware seeing the matched template; unrouted and spec-file requests must show no middleware mark.",
   note="whether the right operation was chosen is C03's business, whether the right operations demand credentials is C11's; OPTIONS answered by the CORS handler is a don't-care"),
 "C04": dict(engine="batch+drv", ref="§4 C04",
   technique="enumeration of parameter declaration cells (compiled one package each) × the full lexeme-class × cardinality table per type; oracle = reference lexer / required / cardinality model",
   text="Every parameter declaration cell (13 leaf kinds × {query scalar, query array, header} × required/optional × {inline, schema $ref, alias, component parameter} × {operation, path-item, operation overriding a differently typed path-item parameter}; quick restricts declaration forms to 5 kinds), every pair of parameters over {int32,string,date-time}×{query,header}×required, and every arrangement of a query and a header parameter sharing one name, is generated and compiled; each is driven with every lexeme of its type table (canonical, boundary, out-of-range, garbage, empty) × cardinality {absent, one, two good, good+bad, bad+good}. Parse() must fail iff the model says so, name the parameter, and otherwise hold exactly the typed values with absent optionals unset.",
   note="nullable parameters and header arrays are outside the judged space; header lexemes are restricted to visible ASCII without surrounding space; lexemes Go accepts beyond the OpenAPI lexical space are don't-cares"),
 "C11": dict(engine="batch+drv", ref="§4 C11",
   technique="exhaustive enumeration of small security configurations (compiled) × all credential states × all authenticator-installed subsets; oracle = reference evaluator of the effective requirement",
   text="All configurations with two schemes A,B (ordered pairs of bearer / apiKey header / apiKey query, plus unsupported kinds), global in {none,[A],[A,B]}, two operations on the same path or on different paths, each with {inherit, [], [A], [B], [A,B], [A and B]} are generated and compiled (about 1700 quick). Each operation is requested with every combination of absent/valid/invalid credential per scheme under every subset of authenticators installed or nil. The handler must run iff the operation is public or an alternative of its own effective requirement is fully accepted, must see the request returned by an accepting authenticator, otherwise 401 without the handler; no authenticator of an unlisted scheme is consulted; no panic.",
   note="three operations and more than two schemes are not enumerated; the bearer prefix variants are not part of the credential alphabet; two known findings (conjunction keeps one scheme; all-unsupported requirement becomes public) mask their supersets"),
 "C14": dict(engine="batch+drv", ref="§4 C14",
   technique="bounded-exhaustive sweep of each request dimension (and of dimension pairs over reduced alphabets) against compiled kitchen-sink packages; oracle = recover() around ServeHTTP and Parse(), exactly one WriteHeader",
   text="Eleven kitchen-sink packages (all parameter kinds under a base path; each JSON body kind inline and by $ref; oneOf with and without discriminator and allOf; raw body; alternative security schemes with cors, explicit OPTIONS and the spec route) are generated and compiled. For every target operation each dimension is swept completely with the others at a valid default: 7 methods, every path string of <= 5 (6) bytes over {/,a,v,1,{} plus single-byte deletions/doublings of declared paths, query strings of <= 3 (4) tokens, declared and credential headers in 5 variants, every credential subset absent/invalid, bodies of <= 4 (5) JSON tokens over a 12-token alphabet plus schema-directed valid and single-fault documents, failing readers and deep nesting; pairs body×query and path×query over reduced alphabets; all under hooks installed and hooks nil (8e6 requests quick).",
   note="bounded alphabets per dimension, not all byte strings; the full five-way product is not claimed; coverage-guided fuzzing (sampling) is deliberately not used"),
 "C17": dict(engine="batch+drv", ref="§4 C17",
   technique="enumeration of path-item configurations (compiled): method subsets × header-parameter variants × security variants × explicit OPTIONS × second path × cors on/off; oracle = set equality of the arguments received by the CORS handler constructor with the model",
   text="Every configuration of a path item /a/b (method subset, header parameters at operation / path-item level / two casings / two distinct / component $ref, security none / global bearer / per-operation apiKey header / both / bearer with a public override, explicit OPTIONS or not) next to a second path (/q or the variable sibling /a/{x}, with or without its own OPTIONS), cors on and off, is generated and compiled (900 quick, all 15 method subsets thorough). OPTIONS is sent to each declared and to undeclared paths with the CORS handler set and nil: the constructor must be called once with exactly the declared methods and the canonical de-duplicated header set of the model; a declared OPTIONS operation is never shadowed; nil handler or cors off means not found.",
   note="order of methods/headers is not compared (sets, duplicates are violations); with cors off a sibling template that declares OPTIONS may take the request (C03 don't-care)"),
 "C06": dict(engine="batch+drv", ref="§4 C06",
   technique="enumeration of component schemas (compiled) × exhaustive value-space exploration of the generated Go type by reflection over small leaf domains; oracle = valid JSON, decodes, equal value",
   text="Every schema state (kind × {component, property, items, additionalProperties value, oneOf member, allOf member} × required × nullable × inline/$ref/alias; three-property objects over all 64 required/nullable combinations; every ordered pair and triple of four allOf member shapes; five oneOf shapes; eight nesting shapes) is generated and compiled; the values of the generated Go type are enumerated from the type itself (booleans, boundary integers and floats, strings needing escapes, zoned times, unset/null wrappers, nil/empty/1/2-element slices, maps with awkward keys, each oneOf variant; full product up to 2000 values, otherwise everything within two moves of two bases plus single-field sweeps). Each value is encoded, the output must be valid JSON, decode, and equal the value (times as instants, nil≡empty, raw JSON as JSON values).",
   note="values of a discriminated oneOf are restricted to those whose discriminator selects the chosen variant; for undiscriminated oneOf a document valid for an earlier variant may come back as that variant; 222+ states of the pinned tree do not compile (C01 findings) and are masked"),
 "C07": dict(engine="batch+drv", ref="§4 C07",
   technique="same states and values as C06; oracle independent of goag: clause-by-clause conformance walker over (source schema, Go value, produced JSON) plus kin-openapi's schema visitor; applied to Marshal output, handler-written response bodies and client-sent request bodies",
   text="For every state and value of C06 (plus variants of each state with a request-body and a response operation and the generated client) the produced JSON is walked against the SOURCE schema and the Go value: required properties present, unset optionals omitted, null only where nullable, names exactly the declared names, JSON types and date-time format, allOf members merged into one object, map entries under their own keys, no undeclared key. Documents the walker accepts are additionally validated by kin-openapi's VisitJSON. The same walker judges every response body written through API.ServeHTTP and every request body the generated client puts on the wire.",
   note="kin-openapi verdicts about string formats other than date-time, oneOf multiplicity and null for the empty schema are ignored (its quirks); the walker pairs Go fields with properties by normalised name"),
 "C08": dict(engine="batch+drv", ref="§4 C08",
   technique="same schema states; documents generated FROM the schema by an independent generator (all optional subsets, null where allowed, leaf spellings, extra keys, key-order permutations, oneOf variants) and all single-fault mutants; decoded directly and as request bodies",
   text="For every schema state the reference generator enumerates valid documents (every subset of optional properties up to 4 optionals, null at every nullable site, boundary and escaped leaf spellings, additional properties where allowed incl. awkward keys, every key order up to 4 keys, each oneOf variant, allOf member variations) and their single-fault mutants (each required key dropped; each declared property replaced by a token of each other JSON type), at every nesting level. Valid documents must decode and re-encode to an equal JSON value; faults must be rejected with an error naming the property. The same documents are posted to an operation whose body is the schema and Parse() must agree.",
   note="extra keys where the schema does not allow them, fractional numbers into integers and malformed format text are don't-cares and not generated; documents come from the spec view, never from goag's encoder"),
 "C12": dict(engine="maporder", ref="§6",
   technique="stateless schedule exploration with deviation bounding where the schedule is the iteration order of every map range: sources of goag and kin-openapi rewritten at check time (go build -overlay) so that each dynamic range over a map is a choice point; every permutation at every point (bound 1), pairs of points inside goag (bound 2, thorough)",
   text="At check time every `range` over a map and every maps.Keys/Values call in the CURRENT sources of goag, goag/specification, goag/generator and kin-openapi's openapi3 and jsoninfo is rewritten to iterate in an order owned by the explorer (49 sites today) and the explorer binary is built with -overlay. For each spec of the corpus (two 'map-fat' specs with >= 4 entries in every map-typed construct incl. keys differing only by case, nested inline objects, discriminator mapping, multi-scheme requirements, server variables whose defaults mention each other; healthy level-1 cells; repository specs) the all-sorted schedule is run twice (ownership gate) and then every permutation of every dynamic iteration with all others sorted; thorough adds every pair of deviations inside goag's packages. Outcome and sha256 of every written file must equal the all-sorted run, and the all-sorted run must equal the uninstrumented CLI, which is additionally run 4-8 times in separate processes.",
   note="n! permutations up to 5 keys, transpositions+reversal+rotations above; x/tools/imports, text/template, yaml, encoding/json are not instrumented; deviations are bounded at 1 (2 inside goag in thorough)"),
}
NA_REASON = "check not built yet (work in progress; see DESIGN.md §13)"
def main():
    m = {
      "version": 1,
      "setup_cmd": "./setup",
      "hooks": {
        "guard": "verif",
        "enable": "./check rebuilds bin/check with `go build -tags verif` against /repo's working tree on every call",
        "baseline_off_cmd": "cd /repo && go test -vet=off -count=1 ./...",
        "source_commits": HOOK_COMMITS,
        "add_only": True,
      },
      "engines": [
        {"name": "genrun", "path": "genrun/", "serves_properties": ["C01","C13","C15","C19","C12"], "kind_free_text": "drives the real generator in sequential worker processes; static oracles (go/parser, gofmt, go/types)"},
        {"name": "cells", "path": "cells/ spec/", "serves_properties": ALL, "kind_free_text": "term algebra of OpenAPI documents and the enumerators of the dialect lattice"},
        {"name": "maporder", "path": "maporder/ vmap/ cmd/maporder/", "serves_properties": ["C12"], "kind_free_text": "overlay instrumenter of map iteration order + deviation-bounded schedule explorer"},
        {"name": "batch+drv", "path": "batch/ drv/ refmodel/", "serves_properties": ["C02","C03","C04","C05","C06","C07","C08","C09","C10","C11","C14","C16","C17","C18"], "kind_free_text": "compiles many generated packages with a reflection driver into one binary and runs every input of the property's alphabet against reference models"},
      ],
      "checks": [],
      "not_applicable": [],
      "notes": "All checks: ./check <ID> quick|thorough ; replay: ./check <ID> --replay <file>. Known findings of the pinned tree are in known_findings.jsonl (DESIGN.md §8).",
    }
    for pid in ALL:
        c = CHECKS.get(pid)
        if not c:
            m["not_applicable"].append({"property_id": pid, "reason": NA_REASON})
            continue
        m["checks"].append({
          "property_id": pid,
          "quick_cmd": "./check %s quick" % pid,
          "thorough_cmd": "./check %s thorough" % pid,
          "evidence_file": "/verif/evidence/%s.json" % pid,
          "replay_cmd_template": "./check %s --replay {path}" % pid,
          "engine": c["engine"],
          "level_claimed": {"category": "model_checking", "text": c["text"], "design_ref": c["ref"]},
          "level_note": c["note"],
          "technique": c["technique"],
        })
    json.dump(m, open("/verif/MANIFEST.json", "w"), indent=1)
    print("checks:", [c["property_id"] for c in m["checks"]])
main()
