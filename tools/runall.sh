#!/bin/bash
# runs every registered check of the given tier (default quick), prints one line each, then validates evidence
tier=${1:-quick}
cd /verif
for id in $(python3 -c "import json;print(' '.join(c['property_id'] for c in json.load(open('MANIFEST.json'))['checks']))"); do
  start=$(date +%s)
  out=$(./check $id $tier 2>&1); rc=$?
  echo "$id rc=$rc $(( $(date +%s)-start ))s $(echo "$out" | grep -a "^$id $tier" | tail -1) viol=$(echo "$out" | grep -a -c '^VIOLATION')"
done
tools/validate.sh | grep -v "^ok" ; echo validated
