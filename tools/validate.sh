#!/bin/bash
# validates MANIFEST.json and every evidence file against the schemas
python3-vt - <<'PY'
import json,jsonschema,glob,sys
ok=True
jsonschema.validate(json.load(open('/verif/MANIFEST.json')), json.load(open('/root/.vp/MANIFEST.schema.json')))
sch=json.load(open('/root/.vp/EVIDENCE.schema.json'))
for f in sorted(glob.glob('/verif/evidence/*.json')):
    try:
        jsonschema.validate(json.load(open(f)), sch); print('ok', f)
    except Exception as e:
        ok=False; print('INVALID', f, str(e)[:200])
sys.exit(0 if ok else 1)
PY
