#!/bin/bash
# Development-time, on the UNCHANGED tree only: lists the states of the batch checks whose generated
# package does not generate or compile (the states behind C01's known findings) into masked_baseline.jsonl.
# The checks read that file and never write it.
cd /verif
[ -n "$(git -C /repo status --porcelain)" ] && { echo "/repo is not clean"; exit 2; }
tmp=/var/tmp/masked.$$; rm -f $tmp
for tier in ${@:-quick thorough}; do
  for id in C02 C03 C04 C05 C06 C07 C08 C09 C10 C11 C13 C14 C16 C17 C18; do
    VERIF_MASKED_OUT=$tmp ./check $id $tier > /dev/null 2>&1
    echo "$id $tier: $(wc -l < $tmp 2>/dev/null) lines so far"
  done
done
python3 - $tmp <<'PY'
import sys,json
seen={}
for l in open(sys.argv[1]):
    d=json.loads(l); seen[(d['check'],d['state'])]=d['why']
with open('/verif/masked_baseline.jsonl','w') as f:
    for (c,s),w in sorted(seen.items()):
        f.write(json.dumps({"check":c,"state":s,"why":w})+"\n")
print(len(seen),"unobservable states listed")
PY
rm -f $tmp
