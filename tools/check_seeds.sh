#!/bin/bash
# Development-time regression of detection: applies every seeded change to /repo in turn, runs the
# quick tier of the check named in its meta.json, expects exit 1 with a VIOLATION line, and undoes it.
# /repo must be clean and nothing else may use /repo meanwhile.
cd /verif
[ -n "$(git -C /repo status --porcelain)" ] && { echo "/repo is not clean"; exit 2; }
fail=0
for d in ${@:-seeded/C*}; do
  n=$(basename $d)
  pf=$(python3 -c "import json;print(json.load(open('$d/meta.json'))['patch_file'])")
  ck=$(python3 -c "import json;print(json.load(open('$d/meta.json'))['check_result']['check'])")
  if [ "$(python3 -c "import json;print(json.load(open('$d/meta.json'))['check_result'].get('missed',False))")" = "True" ]; then echo "$n: recorded as NOT caught (see its meta.json)"; continue; fi
  if ! git -C /repo apply $PWD/$d/$pf; then echo "$n: PATCH DOES NOT APPLY"; fail=1; continue; fi
  out=$(./check $ck quick 2>&1); rc=$?
  git -C /repo checkout -- . ; git -C /repo clean -fdq
  nv=$(echo "$out" | grep -a -c '^VIOLATION')
  if [ $rc -eq 1 ] && [ $nv -gt 0 ]; then echo "$n: caught by $ck ($nv violation classes)"; else echo "$n: MISSED by $ck (rc=$rc)"; fail=1; fi
done
exit $fail
