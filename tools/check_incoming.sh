#!/bin/bash
# Development-time: run the quick (or $TIER) check of the property each not-yet-curated seeded change
# (seeded/_incoming/<id>) names against /repo with the change applied, then undo it.
cd /verif
[ -n "$(git -C /repo status --porcelain)" ] && { echo "/repo is not clean"; exit 2; }
OUT=/var/tmp/seedcheck; mkdir -p $OUT
tier=${TIER:-quick}
for n in ${@:-$(ls seeded/_incoming)}; do
  d=seeded/_incoming/$n
  pf=$d/patch.diff; [ -f $d/patch.ported.diff ] && pf=$d/patch.ported.diff
  ck=$(python3 -c "import json;print(json.load(open('$d/meta.json'))['property'])")
  if ! git -C /repo apply $PWD/$pf; then echo "$n: PATCH DOES NOT APPLY"; continue; fi
  ./check $ck $tier > $OUT/$n.out 2>&1; rc=$?
  git -C /repo checkout -- . ; git -C /repo clean -fdq
  nv=$(grep -a -c '^VIOLATION' $OUT/$n.out)
  if [ $rc -eq 1 ] && [ $nv -gt 0 ]; then echo "$n: caught by $ck $tier ($nv violation classes) $(tail -1 $OUT/$n.out | cut -c1-150)"; else echo "$n: MISSED by $ck $tier (rc=$rc) $(tail -1 $OUT/$n.out | cut -c1-150)"; fi
done
