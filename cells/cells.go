// Package cells enumerates the spec dialect of DESIGN.md §3: one Cell per point of the feature
// matrix (level 1) and compositions of cells (level 2).
package cells

import (
	"fmt"
	"sort"
	"strings"

	"verif/spec"
)

type Cell struct {
	ID    string            // canonical, stable, human-readable state id
	Attrs map[string]string // the coordinates of the cell (axis -> value)
	Spec  *spec.Spec
	Depth int
}

func attrsID(fam string, a map[string]string) string {
	ks := make([]string, 0, len(a))
	for k := range a {
		ks = append(ks, k)
	}
	sort.Strings(ks)
	var b strings.Builder
	b.WriteString(fam)
	b.WriteString("[")
	for i, k := range ks {
		if i > 0 {
			b.WriteString(",")
		}
		fmt.Fprintf(&b, "%s=%s", k, a[k])
	}
	b.WriteString("]")
	return b.String()
}

func NewCell(fam string, a map[string]string, s *spec.Spec) Cell {
	a2 := map[string]string{"fam": fam}
	for k, v := range a {
		a2[k] = v
	}
	return Cell{ID: attrsID(fam, a), Attrs: a2, Spec: s, Depth: 1}
}

// Base returns the base spec: GET /p with an empty default response.
func Base() (*spec.Spec, *spec.PathItem, *spec.Op) {
	op := &spec.Op{Method: "GET", Responses: []*spec.Response{{Status: "default", Desc: "d"}}}
	pi := &spec.PathItem{Template: "/p", Ops: []*spec.Op{op}}
	return &spec.Spec{Paths: []*spec.PathItem{pi}}, pi, op
}

// ---- K: schema kinds ------------------------------------------------------------------------

type Kind struct {
	Name  string
	Leaf  bool                            // usable as parameter / header scalar
	Build func(s *spec.Spec) *spec.Schema // may add helper components to s
}

func leaf(name, typ, format string) Kind {
	return Kind{Name: name, Leaf: true, Build: func(*spec.Spec) *spec.Schema { return spec.TF(typ, format) }}
}

func addSchema(s *spec.Spec, name string, sc *spec.Schema) {
	for _, x := range s.Comp.Schemas {
		if x.Name == name {
			return
		}
	}
	s.Comp.Schemas = append(s.Comp.Schemas, spec.NamedSchema{Name: name, Schema: sc})
}

func objAB() *spec.Schema {
	return spec.Obj(spec.P("a", spec.T("string")), spec.P("b", spec.TF("integer", "int32"))).Req("a")
}

var LeafKinds = []Kind{
	leaf("boolean", "boolean", ""),
	leaf("integer", "integer", ""),
	leaf("int32", "integer", "int32"),
	leaf("int64", "integer", "int64"),
	leaf("number", "number", ""),
	leaf("float", "number", "float"),
	leaf("double", "number", "double"),
	leaf("string", "string", ""),
	leaf("date-time", "string", "date-time"),
	leaf("byte", "string", "byte"),
	leaf("binary", "string", "binary"),
	leaf("date", "string", "date"),
	leaf("password", "string", "password"),
}

var CompositeKinds = []Kind{
	{Name: "any", Build: func(*spec.Spec) *spec.Schema { return &spec.Schema{} }},
	{Name: "array<string>", Build: func(*spec.Spec) *spec.Schema { return spec.Arr(spec.T("string")) }},
	{Name: "array<int32>", Build: func(*spec.Spec) *spec.Schema { return spec.Arr(spec.TF("integer", "int32")) }},
	{Name: "array<object>", Build: func(*spec.Spec) *spec.Schema { return spec.Arr(objAB()) }},
	{Name: "array<ref>", Build: func(s *spec.Spec) *spec.Schema {
		addSchema(s, "Item", objAB())
		return spec.Arr(spec.RefTo("Item"))
	}},
	{Name: "array<map<int32>>", Build: func(*spec.Spec) *spec.Schema {
		return spec.Arr(&spec.Schema{Type: "object", Add: spec.TF("integer", "int32")})
	}},
	{Name: "array<oneOf[ref,ref]>", Build: func(s *spec.Spec) *spec.Schema {
		addSchema(s, "Item", objAB())
		addSchema(s, "Item2", spec.Obj(spec.P("c", spec.T("string"))).Req("c"))
		return spec.Arr(&spec.Schema{OneOf: []*spec.Schema{spec.RefTo("Item"), spec.RefTo("Item2")}})
	}},
	{Name: "array<array<string>>", Build: func(*spec.Spec) *spec.Schema { return spec.Arr(spec.Arr(spec.T("string"))) }},
	{Name: "object", Build: func(*spec.Spec) *spec.Schema { return objAB() }},
	{Name: "object-empty", Build: func(*spec.Spec) *spec.Schema { return spec.T("object") }},
	{Name: "object+addtrue", Build: func(*spec.Spec) *spec.Schema { o := objAB(); o.AddBool = spec.Bool(true); return o }},
	{Name: "object+add<string>", Build: func(*spec.Spec) *spec.Schema { o := objAB(); o.Add = spec.T("string"); return o }},
	{Name: "map<string>", Build: func(*spec.Spec) *spec.Schema { return &spec.Schema{Type: "object", Add: spec.T("string")} }},
	{Name: "map<any>", Build: func(*spec.Spec) *spec.Schema { return &spec.Schema{Type: "object", AddBool: spec.Bool(true)} }},
	{Name: "map<ref>", Build: func(s *spec.Spec) *spec.Schema {
		addSchema(s, "Item", objAB())
		return &spec.Schema{Type: "object", Add: spec.RefTo("Item")}
	}},
	{Name: "allOf[ref,inline]", Build: func(s *spec.Spec) *spec.Schema {
		addSchema(s, "Item", objAB())
		return &spec.Schema{AllOf: []*spec.Schema{spec.RefTo("Item"), spec.Obj(spec.P("c", spec.T("string")))}}
	}},
	{Name: "allOf[ref,ref]", Build: func(s *spec.Spec) *spec.Schema {
		addSchema(s, "Item", objAB())
		addSchema(s, "Item2", spec.Obj(spec.P("c", spec.T("string"))))
		return &spec.Schema{AllOf: []*spec.Schema{spec.RefTo("Item"), spec.RefTo("Item2")}}
	}},
	{Name: "oneOf[ref,ref]", Build: func(s *spec.Spec) *spec.Schema {
		addSchema(s, "Item", objAB())
		addSchema(s, "Item2", spec.Obj(spec.P("c", spec.T("string"))).Req("c"))
		return &spec.Schema{OneOf: []*spec.Schema{spec.RefTo("Item"), spec.RefTo("Item2")}}
	}},
	{Name: "oneOf+disc", Build: func(s *spec.Spec) *spec.Schema {
		addSchema(s, "Cat", spec.Obj(spec.P("kind", spec.T("string")), spec.P("a", spec.T("string"))).Req("kind"))
		addSchema(s, "Dog", spec.Obj(spec.P("kind", spec.T("string")), spec.P("c", spec.T("string"))).Req("kind"))
		return &spec.Schema{OneOf: []*spec.Schema{spec.RefTo("Cat"), spec.RefTo("Dog")}, Disc: &spec.Disc{Prop: "kind", Mapping: map[string]string{"cat": "Cat", "dog": "Dog"}}}
	}},
	// partial mapping: an alias for the first of three variants, the others addressed by schema name
	{Name: "oneOf+disc-partial", Build: func(s *spec.Spec) *spec.Schema {
		addSchema(s, "Cat", spec.Obj(spec.P("kind", spec.T("string")), spec.P("a", spec.T("string"))).Req("kind"))
		addSchema(s, "Dog", spec.Obj(spec.P("kind", spec.T("string")), spec.P("c", spec.T("string"))).Req("kind"))
		addSchema(s, "Emu", spec.Obj(spec.P("kind", spec.T("string")), spec.P("e", spec.TF("integer", "int32"))).Req("kind"))
		return &spec.Schema{OneOf: []*spec.Schema{spec.RefTo("Cat"), spec.RefTo("Dog"), spec.RefTo("Emu")}, Disc: &spec.Disc{Prop: "kind", Mapping: map[string]string{"kitty": "Cat"}}}
	}},
}

func AllKinds() []Kind { return append(append([]Kind{}, LeafKinds...), CompositeKinds...) }

// K2 is the reduced kind set used at pair level for behavioural properties.
var K2Names = []string{"int32", "string", "date-time", "array<string>", "object", "allOf[ref,inline]", "oneOf[ref,ref]"}

func KindByName(n string) Kind {
	for _, k := range AllKinds() {
		if k.Name == n {
			return k
		}
	}
	panic("no kind " + n)
}

// ---- M: modifiers -----------------------------------------------------------------------------

var Forms = []string{"inline", "ref", "alias"}

// Materialise builds the schema of kind k in form f (inline | $ref to component K | $ref to a
// component that is itself a $ref), nullable or not, registering components in s.
func Materialise(s *spec.Spec, k Kind, form string, nullable bool, compName string) *spec.Schema {
	sc := k.Build(s)
	if nullable {
		sc = sc.Null()
	}
	switch form {
	case "inline":
		return sc
	case "ref":
		addSchema(s, compName, sc)
		return spec.RefTo(compName)
	case "alias":
		addSchema(s, compName, sc)
		addSchema(s, compName+"Alias", spec.RefTo(compName))
		return spec.RefTo(compName + "Alias")
	}
	panic("form " + form)
}

func b01(b bool) string {
	if b {
		return "1"
	}
	return "0"
}

// ---- P: positions × K × M (level 1) ---------------------------------------------------------------

// SchemaCells: every kind at every schema-bearing position with every applicable modifier.
func SchemaCells() []Cell {
	var out []Cell
	bools := []bool{false, true}
	for _, k := range AllKinds() {
		// component schema
		for _, null := range bools {
			s, _, _ := Base()
			sc := k.Build(s)
			if null {
				sc = sc.Null()
			}
			addSchema(s, "Top", sc)
			out = append(out, NewCell("schema", map[string]string{"pos": "component", "kind": k.Name, "null": b01(null)}, s))
		}
		for _, form := range Forms {
			for _, null := range bools {
				// object property
				for _, req := range bools {
					s, _, _ := Base()
					ps := Materialise(s, k, form, null, "K")
					o := spec.Obj(spec.P("f", ps), spec.P("g", spec.T("string")))
					if req {
						o = o.Req("f")
					}
					addSchema(s, "Top", o)
					out = append(out, NewCell("schema", map[string]string{"pos": "property", "kind": k.Name, "null": b01(null), "req": b01(req), "form": form}, s))
				}
				// array items
				{
					s, _, _ := Base()
					addSchema(s, "Top", spec.Arr(Materialise(s, k, form, null, "K")))
					out = append(out, NewCell("schema", map[string]string{"pos": "items", "kind": k.Name, "null": b01(null), "form": form}, s))
				}
				// additionalProperties value
				{
					s, _, _ := Base()
					addSchema(s, "Top", &spec.Schema{Type: "object", Add: Materialise(s, k, form, null, "K")})
					out = append(out, NewCell("schema", map[string]string{"pos": "addprops", "kind": k.Name, "null": b01(null), "form": form}, s))
				}
				// oneOf member (the free-form object is left out: it makes every object document valid for two
				// variants, so the schema is ambiguous by construction)
				if k.Name != "object-empty" {
					s, _, _ := Base()
					addSchema(s, "Other", spec.Obj(spec.P("z", spec.T("string"))).Req("z"))
					addSchema(s, "Top", &spec.Schema{OneOf: []*spec.Schema{Materialise(s, k, form, null, "K"), spec.RefTo("Other")}})
					out = append(out, NewCell("schema", map[string]string{"pos": "oneof", "kind": k.Name, "null": b01(null), "form": form}, s))
				}
				// allOf member (object-like kinds only)
				// map<ref> is left out: under allOf every member sees the whole document, so a typed map member
				// whose value schema is an object makes the sibling string property z unsatisfiable
				if (strings.HasPrefix(k.Name, "object") || strings.HasPrefix(k.Name, "map") || strings.HasPrefix(k.Name, "allOf")) && k.Name != "map<ref>" {
					for _, first := range bools {
						s, _, _ := Base()
						m := Materialise(s, k, form, null, "K")
						other := spec.Obj(spec.P("z", spec.T("string")))
						l := []*spec.Schema{other, m}
						if first {
							l = []*spec.Schema{m, other}
						}
						addSchema(s, "Top", &spec.Schema{AllOf: l})
						out = append(out, NewCell("schema", map[string]string{"pos": "allof", "kind": k.Name, "null": b01(null), "form": form, "first": b01(first)}, s))
					}
				}
				// JSON request body
				for _, bform := range []string{"inline", "component"} {
					s, _, op := Base()
					op.Method = "POST"
					body := &spec.Body{Schema: Materialise(s, k, form, null, "K"), Required: true}
					if bform == "component" {
						s.Comp.Bodies = append(s.Comp.Bodies, spec.NamedBody{Name: "B", Body: body})
						op.Body = &spec.Body{Ref: "B"}
					} else {
						op.Body = body
					}
					out = append(out, NewCell("schema", map[string]string{"pos": "reqbody", "kind": k.Name, "null": b01(null), "form": form, "bform": bform}, s))
				}
				// JSON response body
				for _, status := range []string{"200", "default"} {
					for _, rform := range []string{"inline", "component", "alias"} {
						s, _, op := Base()
						r := &spec.Response{Status: status, Desc: "r", Schema: Materialise(s, k, form, null, "K")}
						switch rform {
						case "component":
							s.Comp.Responses = append(s.Comp.Responses, spec.NamedResponse{Name: "R", Response: r})
							r = &spec.Response{Status: status, Ref: "R"}
						case "alias":
							s.Comp.Responses = append(s.Comp.Responses, spec.NamedResponse{Name: "R", Response: r}, spec.NamedResponse{Name: "RAlias", Response: &spec.Response{Ref: "R"}})
							r = &spec.Response{Status: status, Ref: "RAlias"}
						}
						op.Responses = []*spec.Response{r}
						if status != "default" {
							op.Responses = append(op.Responses, &spec.Response{Status: "default", Desc: "d"})
						}
						out = append(out, NewCell("schema", map[string]string{"pos": "respbody", "kind": k.Name, "null": b01(null), "form": form, "status": status, "rform": rform}, s))
					}
				}
			}
		}
	}
	return out
}

// ParamCells: parameter declarations (C04/C05/C01): kind × location × required × declaration form × level
// (operation, path item, operation overriding the path item, inherited while a sibling operation overrides).
func ParamCells() []Cell {
	var out []Cell
	bools := []bool{false, true}
	type loc struct {
		name, in string
		array    bool
	}
	locs := []loc{{"query", "query", false}, {"query-array", "query", true}, {"header", "header", false}, {"header-array", "header", true}, {"path", "path", false}, {"cookie", "cookie", false}}
	kinds := append(append([]Kind{}, LeafKinds...), KindByName("any"), KindByName("object"))
	for _, k := range kinds {
		for _, l := range locs {
			for _, req := range bools {
				if l.in == "path" && !req {
					continue
				}
				for _, decl := range []string{"inline", "schema-ref", "schema-alias", "param-ref"} {
					for _, level := range []string{"op", "pathitem", "override", "sibling"} {
						for _, null := range bools {
							if null && (decl != "inline" || level != "op") {
								continue
							}
							if level == "sibling" && decl == "schema-alias" {
								continue
							}
							s, pi, op := Base()
							var sc *spec.Schema
							form := map[string]string{"inline": "inline", "schema-ref": "ref", "schema-alias": "alias", "param-ref": "inline"}[decl]
							if l.array {
								sc = spec.Arr(Materialise(s, k, form, false, "K"))
								if null {
									sc = sc.Null()
								}
							} else {
								sc = Materialise(s, k, form, null, "K")
							}
							p := &spec.Param{Name: "v", In: l.in, Required: req, Schema: sc}
							if l.in == "path" {
								pi.Template = "/p/{v}"
							}
							use := p
							if decl == "param-ref" {
								s.Comp.Params = append(s.Comp.Params, spec.NamedParam{Name: "PV", Param: p})
								use = &spec.Param{Ref: "PV"}
							}
							switch level {
							case "op":
								op.Params = append(op.Params, use)
							case "pathitem":
								pi.Params = append(pi.Params, use)
							case "override":
								// path-item level declares a differently-typed parameter of the same name
								other := spec.T("string")
								if k.Name == "string" {
									other = spec.TF("integer", "int32")
								}
								pi.Params = append(pi.Params, &spec.Param{Name: "v", In: l.in, Required: req, Schema: other})
								op.Params = append(op.Params, use)
							case "sibling":
								// the path item declares the parameter; GET (the judged operation) inherits it while a
								// sibling DELETE re-declares it with another type
								other := spec.T("string")
								if k.Name == "string" {
									other = spec.TF("integer", "int32")
								}
								pi.Params = append(pi.Params, use)
								pi.Ops = append(pi.Ops, &spec.Op{Method: "DELETE", Responses: []*spec.Response{{Status: "default", Desc: "d"}},
									Params: []*spec.Param{{Name: "v", In: l.in, Required: req, Schema: other}}})
							}
							out = append(out, NewCell("param", map[string]string{"kind": k.Name, "loc": l.name, "req": b01(req), "decl": decl, "level": level, "null": b01(null)}, s))
						}
					}
				}
			}
		}
	}
	return out
}

// HeaderCells: response headers kind × required × inline/component × on numbered/default response.
func HeaderCells() []Cell {
	var out []Cell
	bools := []bool{false, true}
	kinds := append(append([]Kind{}, LeafKinds...), KindByName("array<string>"), KindByName("array<int32>"))
	for _, k := range kinds {
		for _, req := range bools {
			for _, form := range []string{"inline", "schema-ref", "component"} {
				for _, status := range []string{"200", "default"} {
					for _, body := range bools {
						s, _, op := Base()
						f := "inline"
						if form == "schema-ref" {
							f = "ref"
						}
						h := &spec.Header{Name: "X-V", Required: req, Schema: Materialise(s, k, f, false, "K")}
						if form == "component" {
							s.Comp.Headers = append(s.Comp.Headers, spec.NamedHeader{Name: "HV", Header: &spec.Header{Required: req, Schema: h.Schema}})
							h = &spec.Header{Name: "X-V", Ref: "HV"}
						}
						r := &spec.Response{Status: status, Desc: "r", Headers: []*spec.Header{h}}
						if body {
							r.Schema = objAB()
						}
						op.Responses = []*spec.Response{r}
						if status != "default" {
							op.Responses = append(op.Responses, &spec.Response{Status: "default", Desc: "d"})
						}
						out = append(out, NewCell("resphdr", map[string]string{"kind": k.Name, "req": b01(req), "form": form, "status": status, "body": b01(body)}, s))
					}
				}
			}
		}
	}
	return out
}

// HeaderNameCells: response header names that are not in canonical MIME form (the server writes them
// through http.Header, the client must find them again), required and optional, on 200 and default.
func HeaderNameCells() []Cell {
	var out []Cell
	for _, name := range []string{"ETag", "x-rate-limit", "X-Request-ID", "WWW-Authenticate", "X-Canonical", "X-Content-Type-Options", "Content-Disposition", "Location", "Retry-After"} {
		for _, req := range []bool{false, true} {
			for _, status := range []string{"200", "default"} {
				s, _, op := Base()
				r := &spec.Response{Status: status, Desc: "r", Headers: []*spec.Header{{Name: name, Required: req, Schema: spec.T("string")}, {Name: "X-Count", Schema: spec.TF("integer", "int32")}}}
				op.Responses = []*spec.Response{r}
				if status != "default" {
					op.Responses = append(op.Responses, &spec.Response{Status: "default", Desc: "d"})
				}
				out = append(out, NewCell("resphdrname", map[string]string{"name": name, "req": b01(req), "status": status}, s))
			}
		}
	}
	return out
}
