package cells

import (
	"encoding/json"
	"strings"

	"verif/spec"
)

// Merge composes two cells into one spec (level 2 of the lattice): b's components are renamed with
// the suffix "B", its paths are moved under /b, and everything is added to a copy of a. The two
// features then share the file-level structure of the generated package (imports, helper emission,
// naming scopes).
func Merge(a, b Cell) Cell {
	sa := a.Spec.Clone()
	sb := b.Spec.Clone()
	ren := func(n string) string {
		if n == "" {
			return n
		}
		return n + "B"
	}
	var fixSchema func(s *spec.Schema)
	fixSchema = func(s *spec.Schema) {
		if s == nil {
			return
		}
		s.Ref = ren(s.Ref)
		fixSchema(s.Items)
		fixSchema(s.Add)
		for i := range s.Props {
			fixSchema(s.Props[i].Schema)
		}
		for _, l := range [][]*spec.Schema{s.AllOf, s.OneOf, s.AnyOf} {
			for _, x := range l {
				fixSchema(x)
			}
		}
		if s.Disc != nil {
			for k, v := range s.Disc.Mapping {
				s.Disc.Mapping[k] = ren(v)
			}
		}
	}
	fixParam := func(p *spec.Param) {
		p.Ref = ren(p.Ref)
		fixSchema(p.Schema)
	}
	fixHeader := func(h *spec.Header) {
		h.Ref = ren(h.Ref)
		fixSchema(h.Schema)
	}
	fixBody := func(bd *spec.Body) {
		if bd == nil {
			return
		}
		bd.Ref = ren(bd.Ref)
		fixSchema(bd.Schema)
	}
	fixResp := func(r *spec.Response) {
		r.Ref = ren(r.Ref)
		fixSchema(r.Schema)
		for _, h := range r.Headers {
			fixHeader(h)
		}
	}
	fixSec := func(l *[]spec.SecReq) {
		if l == nil {
			return
		}
		for i := range *l {
			for j := range (*l)[i] {
				(*l)[i][j] = ren((*l)[i][j])
			}
		}
	}
	for i := range sb.Comp.Schemas {
		sb.Comp.Schemas[i].Name = ren(sb.Comp.Schemas[i].Name)
		fixSchema(sb.Comp.Schemas[i].Schema)
	}
	for i := range sb.Comp.Params {
		sb.Comp.Params[i].Name = ren(sb.Comp.Params[i].Name)
		fixParam(sb.Comp.Params[i].Param)
	}
	for i := range sb.Comp.Headers {
		sb.Comp.Headers[i].Name = ren(sb.Comp.Headers[i].Name)
		fixHeader(sb.Comp.Headers[i].Header)
	}
	for i := range sb.Comp.Bodies {
		sb.Comp.Bodies[i].Name = ren(sb.Comp.Bodies[i].Name)
		fixBody(sb.Comp.Bodies[i].Body)
	}
	for i := range sb.Comp.Responses {
		sb.Comp.Responses[i].Name = ren(sb.Comp.Responses[i].Name)
		fixResp(sb.Comp.Responses[i].Response)
	}
	for i := range sb.Comp.Security {
		sb.Comp.Security[i].Key = ren(sb.Comp.Security[i].Key)
	}
	fixSec(sb.Security)
	for _, pi := range sb.Paths {
		pi.Template = "/b" + strings.TrimSuffix(pi.Template, "")
		for _, p := range pi.Params {
			fixParam(p)
		}
		for _, o := range pi.Ops {
			if o.ID != "" {
				o.ID += "B"
			}
			for _, p := range o.Params {
				fixParam(p)
			}
			fixBody(o.Body)
			for _, r := range o.Responses {
				fixResp(r)
			}
			fixSec(o.Security)
			// b's global security becomes its operations' own security (a keeps its global list)
			if o.Security == nil && sb.Security != nil {
				cp := append([]spec.SecReq{}, (*sb.Security)...)
				o.Security = &cp
			}
		}
	}
	sa.Paths = append(sa.Paths, sb.Paths...)
	sa.Comp.Schemas = append(sa.Comp.Schemas, sb.Comp.Schemas...)
	sa.Comp.Params = append(sa.Comp.Params, sb.Comp.Params...)
	sa.Comp.Headers = append(sa.Comp.Headers, sb.Comp.Headers...)
	sa.Comp.Bodies = append(sa.Comp.Bodies, sb.Comp.Bodies...)
	sa.Comp.Responses = append(sa.Comp.Responses, sb.Comp.Responses...)
	sa.Comp.Security = append(sa.Comp.Security, sb.Comp.Security...)
	if sa.InfoDesc == "" {
		sa.InfoDesc = sb.InfoDesc
	}
	attrs := map[string]string{"fam": "pair", "a": a.ID, "b": b.ID}
	aj, _ := json.Marshal(a.Attrs)
	_ = aj
	return Cell{ID: "pair[" + a.ID + " + " + b.ID + "]", Attrs: attrs, Spec: sa, Depth: 2}
}
