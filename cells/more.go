package cells

import (
	"fmt"
	"strings"

	"verif/spec"
)

// ---- N: name shapes ---------------------------------------------------------------------------

var Names = []string{"id", "ids", "userId", "user_id", "user-id", "a.b", "X-Request-Uuid", "type", "func", "range", "2fa", "é", "Api-Key", "url", "http_url", "ID", "a b"}

// NormRef is a reference normaliser used only to *find* pairs of names that may collide after an
// identifier derivation (it is deliberately coarse: lower-case, keep letters and digits).
func NormRef(s string) string {
	var b strings.Builder
	for _, r := range strings.ToLower(s) {
		if r >= 'a' && r <= 'z' || r >= '0' && r <= '9' || r > 127 {
			b.WriteRune(r)
		}
	}
	return b.String()
}

var collidingPool = []string{"a_b", "a-b", "a.b", "aB", "AB", "ab", "id", "Id", "ID", "userId", "user_id", "user-id", "UserID", "x", "X"}

func CollidingPairs() [][2]string {
	var out [][2]string
	for i, a := range collidingPool {
		for _, b := range collidingPool[i+1:] {
			if NormRef(a) == NormRef(b) {
				out = append(out, [2]string{a, b})
			}
		}
	}
	return out
}

type nameSite struct {
	name  string
	build func(n string) *spec.Spec
	pair  func(a, b string) *spec.Spec // two names in the same scope (nil = no pair cells)
}

func nameSites() []nameSite {
	return []nameSite{
		{"property", func(n string) *spec.Spec {
			s, _, _ := Base()
			addSchema(s, "Top", spec.Obj(spec.P(n, spec.T("string")), spec.P("q", spec.TF("integer", "int32"))).Req(n))
			return s
		}, func(a, b string) *spec.Spec {
			s, _, _ := Base()
			addSchema(s, "Top", spec.Obj(spec.P(a, spec.T("string")), spec.P(b, spec.T("string"))))
			return s
		}},
		{"query", func(n string) *spec.Spec {
			s, _, op := Base()
			op.Params = []*spec.Param{{Name: n, In: "query", Schema: spec.T("string")}}
			return s
		}, func(a, b string) *spec.Spec {
			s, _, op := Base()
			op.Params = []*spec.Param{{Name: a, In: "query", Schema: spec.T("string")}, {Name: b, In: "query", Schema: spec.T("string")}}
			return s
		}},
		{"header", func(n string) *spec.Spec {
			s, _, op := Base()
			op.Params = []*spec.Param{{Name: n, In: "header", Schema: spec.T("string")}}
			return s
		}, func(a, b string) *spec.Spec {
			s, _, op := Base()
			op.Params = []*spec.Param{{Name: a, In: "header", Schema: spec.T("string")}, {Name: b, In: "header", Schema: spec.T("string")}}
			return s
		}},
		{"pathparam", func(n string) *spec.Spec {
			s, pi, op := Base()
			pi.Template = "/p/{" + n + "}"
			op.Params = []*spec.Param{{Name: n, In: "path", Required: true, Schema: spec.T("string")}}
			return s
		}, func(a, b string) *spec.Spec {
			s, pi, op := Base()
			pi.Template = "/p/{" + a + "}/{" + b + "}"
			op.Params = []*spec.Param{{Name: a, In: "path", Required: true, Schema: spec.T("string")}, {Name: b, In: "path", Required: true, Schema: spec.T("string")}}
			return s
		}},
		{"pathsegment", func(n string) *spec.Spec {
			s, pi, _ := Base()
			pi.Template = "/" + n + "/x"
			return s
		}, func(a, b string) *spec.Spec {
			s, pi, _ := Base()
			pi.Template = "/" + a + "/x"
			s.Paths = append(s.Paths, &spec.PathItem{Template: "/" + b + "/y", Ops: []*spec.Op{{Method: "GET", Responses: []*spec.Response{{Status: "default", Desc: "d"}}}}})
			return s
		}},
		// path-derived operation names meet component responses (the write<Op> methods of a shared
		// response are named from the path by a second piece of code)
		{"pathparam+compresp", func(n string) *spec.Spec {
			s, pi, op := Base()
			pi.Template = "/users/{" + n + "}"
			op.Params = []*spec.Param{{Name: n, In: "path", Required: true, Schema: spec.T("string")}}
			s.Comp.Responses = append(s.Comp.Responses, spec.NamedResponse{Name: "NotFound", Response: &spec.Response{Desc: "r", Schema: objAB()}})
			op.Responses = []*spec.Response{{Status: "200", Desc: "ok"}, {Status: "404", Ref: "NotFound"}}
			return s
		}, nil},
		{"pathsegment+compresp", func(n string) *spec.Spec {
			s, pi, op := Base()
			pi.Template = "/" + n + "/"
			s.Comp.Responses = append(s.Comp.Responses, spec.NamedResponse{Name: "NotFound", Response: &spec.Response{Desc: "r", Schema: objAB()}})
			op.Responses = []*spec.Response{{Status: "200", Desc: "ok"}, {Status: "404", Ref: "NotFound"}}
			return s
		}, nil},
		{"operationId", func(n string) *spec.Spec {
			s, _, op := Base()
			op.ID = n
			return s
		}, func(a, b string) *spec.Spec {
			s, pi, op := Base()
			op.ID = a
			pi.Ops = append(pi.Ops, &spec.Op{Method: "POST", ID: b, Responses: []*spec.Response{{Status: "default", Desc: "d"}}})
			return s
		}},
		{"schema", func(n string) *spec.Spec {
			s, _, op := Base()
			addSchema(s, n, objAB())
			op.Responses = []*spec.Response{{Status: "200", Desc: "r", Schema: spec.RefTo(n)}}
			return s
		}, func(a, b string) *spec.Spec {
			s, _, _ := Base()
			addSchema(s, a, objAB())
			addSchema(s, b, objAB())
			return s
		}},
		{"response", func(n string) *spec.Spec {
			s, _, op := Base()
			s.Comp.Responses = append(s.Comp.Responses, spec.NamedResponse{Name: n, Response: &spec.Response{Desc: "r", Schema: objAB()}})
			op.Responses = []*spec.Response{{Status: "200", Ref: n}}
			return s
		}, nil},
		{"requestBody", func(n string) *spec.Spec {
			s, _, op := Base()
			op.Method = "POST"
			s.Comp.Bodies = append(s.Comp.Bodies, spec.NamedBody{Name: n, Body: &spec.Body{Schema: objAB()}})
			op.Body = &spec.Body{Ref: n}
			return s
		}, nil},
		{"headerComponent", func(n string) *spec.Spec {
			s, _, op := Base()
			s.Comp.Headers = append(s.Comp.Headers, spec.NamedHeader{Name: n, Header: &spec.Header{Schema: spec.T("string")}})
			op.Responses = []*spec.Response{{Status: "200", Desc: "r", Headers: []*spec.Header{{Name: "X-H", Ref: n}}}}
			return s
		}, nil},
		{"respHeader", func(n string) *spec.Spec {
			s, _, op := Base()
			op.Responses = []*spec.Response{{Status: "200", Desc: "r", Headers: []*spec.Header{{Name: n, Schema: spec.T("string")}}}}
			return s
		}, func(a, b string) *spec.Spec {
			s, _, op := Base()
			op.Responses = []*spec.Response{{Status: "200", Desc: "r", Headers: []*spec.Header{{Name: a, Schema: spec.T("string")}, {Name: b, Schema: spec.T("string")}}}}
			return s
		}},
		{"paramComponent", func(n string) *spec.Spec {
			s, _, op := Base()
			s.Comp.Params = append(s.Comp.Params, spec.NamedParam{Name: n, Param: &spec.Param{Name: "q", In: "query", Schema: spec.T("string")}})
			op.Params = []*spec.Param{{Ref: n}}
			return s
		}, nil},
		{"apiKeyName", func(n string) *spec.Spec {
			s, _, _ := Base()
			s.Comp.Security = []spec.SecScheme{{Key: "k", Type: "apiKey", In: "header", Name: n}}
			s.Security = &[]spec.SecReq{{"k"}}
			return s
		}, nil},
		{"schemeKey", func(n string) *spec.Spec {
			s, _, _ := Base()
			s.Comp.Security = []spec.SecScheme{{Key: n, Type: "apiKey", In: "header", Name: "X-Key"}}
			s.Security = &[]spec.SecReq{{n}}
			return s
		}, nil},
	}
}

func validHeaderName(n string) bool {
	for _, r := range n {
		if r <= ' ' || r > 126 {
			return false
		}
	}
	return n != ""
}

func NameCells() []Cell {
	var out []Cell
	for _, st := range nameSites() {
		for _, n := range Names {
			if (st.name == "header" || st.name == "respHeader" || st.name == "apiKeyName") && !validHeaderName(n) {
				continue
			}
			if strings.HasPrefix(st.name, "path") && strings.ContainsAny(n, " ") {
				continue
			}
			out = append(out, NewCell("name", map[string]string{"site": st.name, "name": n}, st.build(n)))
		}
		if st.pair != nil {
			for _, pr := range CollidingPairs() {
				if st.name == "header" || st.name == "respHeader" {
					if strings.EqualFold(pr[0], pr[1]) {
						continue // the same HTTP header twice is not a valid document
					}
				}
				out = append(out, NewCell("namepair", map[string]string{"site": st.name, "a": pr[0], "b": pr[1]}, st.pair(pr[0], pr[1])))
			}
		}
	}
	return out
}

// ---- T: free-text shapes ---------------------------------------------------------------------------

var Texts = map[string]string{
	"oneline":  "one line",
	"twolines": "line1\nline2",
	"trailnl":  "line1\n",
	"closecmt": "a */ b",
	"quote":    `say "hi"`,
	"backtick": "a `b` c",
	"bslash":   `a \n b \`,
	"slashes":  "// starts like a comment",
	"crlf":     "line1\r\nline2",
	"braces":   "{{ .X }} }",
}

func TextCells() []Cell {
	var out []Cell
	sites := map[string]func(t string) *spec.Spec{
		"info":      func(t string) *spec.Spec { s, _, _ := Base(); s.InfoDesc = t; return s },
		"opdesc":    func(t string) *spec.Spec { s, _, op := Base(); op.Desc = t; return s },
		"opsummary": func(t string) *spec.Spec { s, _, op := Base(); op.Summary = t; return s },
		"param": func(t string) *spec.Spec {
			s, _, op := Base()
			op.Params = []*spec.Param{{Name: "q", In: "query", Desc: t, Schema: spec.T("string")}}
			return s
		},
		"schema": func(t string) *spec.Spec { s, _, _ := Base(); addSchema(s, "Top", objAB().WithDesc(t)); return s },
		"property": func(t string) *spec.Spec {
			s, _, _ := Base()
			addSchema(s, "Top", spec.Obj(spec.P("a", spec.T("string").WithDesc(t))))
			return s
		},
		"response": func(t string) *spec.Spec {
			s, _, op := Base()
			op.Responses = []*spec.Response{{Status: "200", Desc: t, Schema: objAB()}}
			return s
		},
		"respcomponent": func(t string) *spec.Spec {
			s, _, op := Base()
			s.Comp.Responses = append(s.Comp.Responses, spec.NamedResponse{Name: "R", Response: &spec.Response{Desc: t, Schema: objAB()}})
			op.Responses = []*spec.Response{{Status: "200", Ref: "R"}}
			return s
		},
		"header": func(t string) *spec.Spec {
			s, _, op := Base()
			op.Responses = []*spec.Response{{Status: "200", Desc: "r", Headers: []*spec.Header{{Name: "X-H", Desc: t, Schema: spec.T("string")}}}}
			return s
		},
		"headercomponent": func(t string) *spec.Spec {
			s, _, op := Base()
			s.Comp.Headers = append(s.Comp.Headers, spec.NamedHeader{Name: "H", Header: &spec.Header{Desc: t, Schema: spec.T("string")}})
			op.Responses = []*spec.Response{{Status: "200", Desc: "r", Headers: []*spec.Header{{Name: "X-H", Ref: "H"}}}}
			return s
		},
		"reqbody": func(t string) *spec.Spec {
			s, _, op := Base()
			op.Method = "POST"
			s.Comp.Bodies = append(s.Comp.Bodies, spec.NamedBody{Name: "B", Body: &spec.Body{Desc: t, Schema: objAB()}})
			op.Body = &spec.Body{Ref: "B"}
			return s
		},
	}
	for _, site := range spec.SortedKeys(sites) {
		for _, tn := range spec.SortedKeys(Texts) {
			out = append(out, NewCell("text", map[string]string{"site": site, "text": tn}, sites[site](Texts[tn])))
		}
	}
	return out
}

// ---- status-code shapes × content kinds ---------------------------------------------------------------

func StatusCells() []Cell {
	var out []Cell
	for _, st := range []string{"200", "201", "204", "404", "default", "2XX", "5XX"} {
		for _, ck := range []string{"none", "json", "json-noschema", "octet", "text", "octet-noschema", "text-params", "csv-upper"} {
			for _, withDefault := range []bool{false, true} {
				if st == "default" && withDefault {
					continue
				}
				s, _, op := Base()
				r := &spec.Response{Status: st, Desc: "r"}
				switch ck {
				case "json":
					r.Schema = objAB()
				case "json-noschema":
					r.ContentType = "application/json"
				case "octet":
					r.ContentType = "application/octet-stream"
					r.Schema = spec.TF("string", "binary")
				case "octet-noschema":
					r.ContentType = "application/octet-stream"
				case "text":
					r.ContentType = "text/plain"
					r.Schema = spec.T("string")
				case "text-params":
					r.ContentType = "text/plain; charset=iso-8859-1"
					r.Schema = spec.T("string")
				case "csv-upper":
					r.ContentType = "Text/CSV; charset=utf-8; header=present"
					r.Schema = spec.T("string")
				}
				op.Responses = []*spec.Response{r}
				if withDefault {
					op.Responses = append(op.Responses, &spec.Response{Status: "default", Desc: "d"})
				}
				out = append(out, NewCell("status", map[string]string{"status": st, "content": ck, "default": b01(withDefault)}, s))
			}
		}
	}
	// request body content kinds
	for _, ck := range []string{"json", "json-noschema", "octet", "text", "form", "octet-noschema"} {
		for _, req := range []bool{false, true} {
			s, _, op := Base()
			op.Method = "POST"
			b := &spec.Body{Required: req}
			switch ck {
			case "json":
				b.Schema = objAB()
			case "json-noschema":
			case "octet":
				b.ContentType = "application/octet-stream"
				b.Schema = spec.TF("string", "binary")
			case "octet-noschema":
				b.ContentType = "application/octet-stream"
			case "text":
				b.ContentType = "text/plain"
				b.Schema = spec.T("string")
			case "form":
				b.ContentType = "application/x-www-form-urlencoded"
				b.Schema = objAB()
			}
			op.Body = b
			out = append(out, NewCell("reqcontent", map[string]string{"content": ck, "req": b01(req)}, s))
		}
	}
	return out
}

// ---- security kinds --------------------------------------------------------------------------------

var SchemeKinds = map[string]spec.SecScheme{
	"bearer":          {Type: "http", Scheme: "bearer"},
	"basic":           {Type: "http", Scheme: "basic"},
	"apikey-hdr":      {Type: "apiKey", In: "header", Name: "X-Key"},
	"apikey-hdr-auth": {Type: "apiKey", In: "header", Name: "Authorization"},
	// the scheme name as registered with IANA (RFC 6750 spells it "Bearer"; names are case-insensitive)
	"bearer-capital": {Type: "http", Scheme: "Bearer"},
	"apikey-query":   {Type: "apiKey", In: "query", Name: "key"},
	"apikey-cookie":  {Type: "apiKey", In: "cookie", Name: "sid"},
	"oauth2":         {Type: "oauth2"},
	"oidc":           {Type: "openIdConnect"},
}

func SecurityCells() []Cell {
	var out []Cell
	for _, k := range spec.SortedKeys(SchemeKinds) {
		for _, where := range []string{"global", "op", "declared-unused"} {
			s, _, op := Base()
			sc := SchemeKinds[k]
			sc.Key = "s1"
			s.Comp.Security = []spec.SecScheme{sc}
			switch where {
			case "global":
				s.Security = &[]spec.SecReq{{"s1"}}
			case "op":
				op.Security = &[]spec.SecReq{{"s1"}}
			}
			out = append(out, NewCell("security", map[string]string{"scheme": k, "where": where}, s))
		}
	}
	// pairs of schemes: alternatives and conjunction
	ks := spec.SortedKeys(SchemeKinds)
	for i, a := range ks {
		for _, b := range ks[i+1:] {
			for _, mode := range []string{"or", "and"} {
				s, _, _ := Base()
				sa, sb := SchemeKinds[a], SchemeKinds[b]
				sa.Key, sb.Key = "s1", "s2"
				s.Comp.Security = []spec.SecScheme{sa, sb}
				if mode == "or" {
					s.Security = &[]spec.SecReq{{"s1"}, {"s2"}}
				} else {
					s.Security = &[]spec.SecReq{{"s1", "s2"}}
				}
				out = append(out, NewCell("security2", map[string]string{"a": a, "b": b, "mode": mode}, s))
			}
		}
	}
	return out
}

// ---- F: flags and config ------------------------------------------------------------------------------

type Flags struct {
	Client    bool
	DoNotEdit bool
	Cors      bool
	Base      string // name of the base-path form
}

type BaseForm struct {
	Name    string
	Servers []spec.Server
	Flag    string // --basepath
	// Want is the normalised base path the property text implies ("" = none): path of the first
	// server URL after variable substitution, or the flag; trailing slash insignificant.
	Want string
}

var BaseForms = []BaseForm{
	{Name: "none"},
	{Name: "v1", Servers: []spec.Server{{URL: "/v1"}}, Want: "/v1"},
	{Name: "v1slash", Servers: []spec.Server{{URL: "/v1/"}}, Want: "/v1"},
	{Name: "slash", Servers: []spec.Server{{URL: "/"}}, Want: ""},
	{Name: "v1v2", Servers: []spec.Server{{URL: "https://example.com/v1/v2"}}, Want: "/v1/v2"},
	{Name: "abs-nopath", Servers: []spec.Server{{URL: "https://example.com"}}, Want: ""},
	{Name: "vars", Servers: []spec.Server{{URL: "https://{h}.example.com/{bp}", Vars: map[string]string{"h": "api", "bp": "v1"}}}, Want: "/v1"},
	{Name: "flag", Flag: "/v1", Want: "/v1"},
	{Name: "flag-slash", Flag: "/v1/", Want: "/v1"},
	{Name: "flag-over-servers", Servers: []spec.Server{{URL: "/v9"}}, Flag: "/v1", Want: "/v1"},
	{Name: "flag-root-over-servers", Servers: []spec.Server{{URL: "https://example.com/v9/"}}, Flag: "/", Want: ""},
	{Name: "two-servers", Servers: []spec.Server{{URL: "/v1"}, {URL: "/v2"}}, Want: "/v1"},
	{Name: "nopath-then-path", Servers: []spec.Server{{URL: "https://example.com"}, {URL: "http://localhost:8080/v1"}}, Want: ""},
}

func BaseFormByName(n string) BaseForm {
	for _, b := range BaseForms {
		if b.Name == n {
			return b
		}
	}
	panic("base form " + n)
}

func AllFlags() []Flags {
	var out []Flags
	for _, c := range []bool{false, true} {
		for _, d := range []bool{false, true} {
			for _, co := range []bool{false, true} {
				for _, b := range BaseForms {
					out = append(out, Flags{c, d, co, b.Name})
				}
			}
		}
	}
	return out
}

func (f Flags) String() string {
	return fmt.Sprintf("client=%s,dne=%s,cors=%s,base=%s", b01(f.Client), b01(f.DoNotEdit), b01(f.Cors), f.Base)
}

// WithBase returns a copy of the spec with the servers of the base form installed.
func WithBase(s *spec.Spec, b BaseForm) *spec.Spec {
	c := s.Clone()
	c.Servers = b.Servers
	return c
}

// FileLevelCells touch file-level structure (imports, router, client) and get the full F product.
func FileLevelCells() []Cell {
	var out []Cell
	// no paths at all
	out = append(out, NewCell("file", map[string]string{"shape": "nopaths"}, &spec.Spec{}))
	{ // path without operations
		s := &spec.Spec{Paths: []*spec.PathItem{{Template: "/p"}}}
		out = append(out, NewCell("file", map[string]string{"shape": "noops"}, s))
	}
	{ // root path
		s, pi, _ := Base()
		pi.Template = "/"
		out = append(out, NewCell("file", map[string]string{"shape": "rootpath"}, s))
	}
	{ // several methods, params, body, security, components
		s, pi, op := Base()
		pi.Template = "/p/{v}"
		pi.Params = []*spec.Param{{Name: "v", In: "path", Required: true, Schema: spec.TF("integer", "int64")}}
		op.Params = []*spec.Param{{Name: "q", In: "query", Schema: spec.TF("string", "date-time")}, {Name: "X-H", In: "header", Required: true, Schema: spec.T("number")}}
		addSchema(s, "Top", objAB())
		pi.Ops = append(pi.Ops, &spec.Op{Method: "POST", Body: &spec.Body{Schema: spec.RefTo("Top"), Required: true},
			Responses: []*spec.Response{{Status: "201", Desc: "r", Schema: spec.RefTo("Top"), Headers: []*spec.Header{{Name: "X-R", Schema: spec.TF("integer", "int32")}}}, {Status: "default", Desc: "d"}}})
		s.Comp.Security = []spec.SecScheme{{Key: "b", Type: "http", Scheme: "bearer"}, {Key: "k", Type: "apiKey", In: "header", Name: "X-Key"}}
		s.Security = &[]spec.SecReq{{"b"}, {"k"}}
		out = append(out, NewCell("file", map[string]string{"shape": "kitchen"}, s))
	}
	{ // raw body in and out
		s, _, op := Base()
		op.Method = "PUT"
		op.Body = &spec.Body{ContentType: "application/octet-stream", Schema: spec.TF("string", "binary")}
		op.Responses = []*spec.Response{{Status: "200", Desc: "r", ContentType: "application/octet-stream", Schema: spec.TF("string", "binary")}}
		out = append(out, NewCell("file", map[string]string{"shape": "raw"}, s))
	}
	{ // explicit OPTIONS + others
		s, pi, _ := Base()
		pi.Ops = append(pi.Ops, &spec.Op{Method: "OPTIONS", Responses: []*spec.Response{{Status: "default", Desc: "d"}}})
		out = append(out, NewCell("file", map[string]string{"shape": "options"}, s))
	}
	{ // every method
		s, pi, _ := Base()
		for _, m := range []string{"POST", "PUT", "DELETE", "PATCH", "HEAD", "TRACE"} {
			pi.Ops = append(pi.Ops, &spec.Op{Method: m, Responses: []*spec.Response{{Status: "default", Desc: "d"}}})
		}
		out = append(out, NewCell("file", map[string]string{"shape": "allmethods"}, s))
	}
	{ // only components
		s := &spec.Spec{}
		addSchema(s, "Top", objAB())
		out = append(out, NewCell("file", map[string]string{"shape": "onlycomponents"}, s))
	}
	return out
}

// ---- sets of component responses and several media types per content map ---------------------------

func contentOf(kind string) (ct string, sc *spec.Schema) {
	switch kind {
	case "json":
		return "", objAB()
	case "text":
		return "text/plain", spec.T("string")
	case "octet":
		return "application/octet-stream", spec.TF("string", "binary")
	}
	return "", nil
}

// RespSetCells: two component responses of different content kinds (the first sorts before the
// second) used by one operation at two statuses or by two operations; no other JSON anywhere in the
// document. Then responses and request bodies whose content map documents two media types.
func RespSetCells() []Cell {
	var out []Cell
	kinds := []string{"json", "none", "text", "octet"}
	for _, k1 := range kinds {
		for _, k2 := range kinds {
			if k1 == k2 {
				continue
			}
			for _, usage := range []string{"one-op", "two-ops"} {
				s, pi, op := Base()
				mk := func(name, kind string) {
					ct, sc := contentOf(kind)
					s.Comp.Responses = append(s.Comp.Responses, spec.NamedResponse{Name: name, Response: &spec.Response{Desc: "r", ContentType: ct, Schema: sc}})
				}
				mk("Alpha", k1)
				mk("Zulu", k2)
				if usage == "one-op" {
					op.Responses = []*spec.Response{{Status: "200", Ref: "Alpha"}, {Status: "404", Ref: "Zulu"}}
				} else {
					op.Responses = []*spec.Response{{Status: "200", Ref: "Alpha"}}
					pi.Ops = append(pi.Ops, &spec.Op{Method: "POST", Responses: []*spec.Response{{Status: "201", Ref: "Zulu"}}})
				}
				out = append(out, NewCell("respset", map[string]string{"first": k1, "second": k2, "usage": usage}, s))
			}
		}
	}
	type mm struct {
		name  string
		first string // content kind of the primary entry
		also  []spec.Media
	}
	mms := []mm{
		{"json+xml", "json", []spec.Media{{ContentType: "application/xml", Schema: objAB()}}},
		{"json+cbor", "json", []spec.Media{{ContentType: "application/cbor", Schema: spec.TF("string", "binary")}}},
		{"json+text", "json", []spec.Media{{ContentType: "text/plain", Schema: spec.T("string")}}},
		{"text+octet", "text", []spec.Media{{ContentType: "application/octet-stream", Schema: spec.TF("string", "binary")}}},
		{"json+hal", "json", []spec.Media{{ContentType: "application/hal+json", Schema: objAB()}}},
	}
	for _, m := range mms {
		for _, form := range []string{"inline", "component"} {
			for _, status := range []string{"200", "default"} {
				s, _, op := Base()
				ct, sc := contentOf(m.first)
				r := &spec.Response{Status: status, Desc: "r", ContentType: ct, Schema: sc, Also: m.also}
				if form == "component" {
					s.Comp.Responses = append(s.Comp.Responses, spec.NamedResponse{Name: "R", Response: r})
					r = &spec.Response{Status: status, Ref: "R"}
				}
				op.Responses = []*spec.Response{r}
				if status != "default" {
					op.Responses = append(op.Responses, &spec.Response{Status: "default", Desc: "d"})
				}
				out = append(out, NewCell("multimedia", map[string]string{"site": "response", "content": m.name, "form": form, "status": status}, s))
			}
			s, _, op := Base()
			op.Method = "POST"
			ct, sc := contentOf(m.first)
			b := &spec.Body{ContentType: ct, Schema: sc, Required: true, Also: m.also}
			if form == "component" {
				s.Comp.Bodies = append(s.Comp.Bodies, spec.NamedBody{Name: "B", Body: b})
				b = &spec.Body{Ref: "B"}
			}
			op.Body = b
			out = append(out, NewCell("multimedia", map[string]string{"site": "reqbody", "content": m.name, "form": form}, s))
		}
	}
	// one header definition used under different header names by several responses: by $ref to
	// components.headers, or as inline copies
	for _, form := range []string{"inline", "component"} {
		s, _, op := Base()
		hdr := func(name string) *spec.Header {
			if form == "component" {
				return &spec.Header{Name: name, Ref: "Counter"}
			}
			return &spec.Header{Name: name, Schema: spec.TF("integer", "int32")}
		}
		if form == "component" {
			s.Comp.Headers = []spec.NamedHeader{{Name: "Counter", Header: &spec.Header{Schema: spec.TF("integer", "int32")}}}
		}
		s.Comp.Responses = []spec.NamedResponse{{Name: "Slow", Response: &spec.Response{Desc: "r", Headers: []*spec.Header{hdr("Retry-After")}}}}
		op.Responses = []*spec.Response{{Status: "200", Desc: "r", Headers: []*spec.Header{hdr("X-Total-Count")}},
			{Status: "202", Desc: "r", Headers: []*spec.Header{hdr("X-Queue-Length")}}, {Status: "429", Ref: "Slow"}, {Status: "default", Desc: "d"}}
		out = append(out, NewCell("hdrshare", map[string]string{"form": form}, s))
	}
	return out
}

// RefOrderCells: a component schema that references another component sorting after it (forward) or
// before it (backward) from each composite position; the referencing component is used as a response body.
func RefOrderCells() []Cell {
	var out []Cell
	for _, dir := range []string{"forward", "backward"} {
		for _, pos := range []string{"items", "property", "allof", "oneof", "addprops", "alias"} {
			s, _, op := Base()
			user, target := "Alpha", "Zulu"
			if dir == "backward" {
				user, target = "Zulu", "Alpha"
			}
			var sc *spec.Schema
			switch pos {
			case "items":
				sc = spec.Arr(spec.RefTo(target))
			case "property":
				sc = spec.Obj(spec.P("t", spec.RefTo(target)), spec.P("n", spec.T("string")))
			case "allof":
				sc = &spec.Schema{AllOf: []*spec.Schema{spec.RefTo(target), spec.Obj(spec.P("c", spec.T("string")))}}
			case "oneof":
				addSchema(s, "Other", spec.Obj(spec.P("z", spec.T("string"))).Req("z"))
				sc = &spec.Schema{OneOf: []*spec.Schema{spec.RefTo(target), spec.RefTo("Other")}}
			case "addprops":
				sc = &spec.Schema{Type: "object", Add: spec.RefTo(target)}
			case "alias":
				sc = spec.RefTo(target)
			}
			addSchema(s, user, sc)
			addSchema(s, target, objAB())
			op.Responses = []*spec.Response{{Status: "200", Desc: "r", Schema: spec.RefTo(user)}, {Status: "default", Desc: "d"}}
			out = append(out, NewCell("reforder", map[string]string{"dir": dir, "pos": pos}, s))
		}
	}
	return out
}

// OneOfOrderCells: an undiscriminated oneOf whose members are NOT in alphabetical order and overlap (a
// document may satisfy both): by $ref to components, or as inline copies of the same schemas.
func OneOfOrderCells() []Cell {
	var out []Cell
	zed := func() *spec.Schema {
		return spec.Obj(spec.P("name", spec.T("string")), spec.P("n", spec.TF("integer", "int32")))
	}
	alpha := func() *spec.Schema {
		return spec.Obj(spec.P("label", spec.T("string")), spec.P("name", spec.T("string")))
	}
	for _, form := range []string{"inline", "ref"} {
		s, _, _ := Base()
		var top *spec.Schema
		if form == "ref" {
			addSchema(s, "Zed", zed())
			addSchema(s, "Alpha", alpha())
			top = &spec.Schema{OneOf: []*spec.Schema{spec.RefTo("Zed"), spec.RefTo("Alpha")}}
		} else {
			top = &spec.Schema{OneOf: []*spec.Schema{zed(), alpha()}}
		}
		addSchema(s, "Top", top)
		out = append(out, NewCell("oneoforder", map[string]string{"form": form}, s))
	}
	return out
}
