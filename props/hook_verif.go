//go:build verif

package props

import "github.com/vkd/goag/generator"

func init() {
	WorkerStats = func() any { return map[string]any{"arms": generator.VerifTemplateCoverage()} }
}
