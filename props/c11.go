package props

import (
	"fmt"
	"sort"
	"strings"

	"verif/cells"
	"verif/drv"
	"verif/genrun"
	"verif/refmodel"
	"verif/report"
	"verif/spec"
)

func init() { Registry["C11"] = C11 }

func kindOfScheme(k string) string {
	switch k {
	case "bearer", "apikey-hdr", "apikey-query":
		return k
	case "bearer-capital":
		return "bearer"
	case "apikey-hdr-auth":
		return "apikey-hdr" // an apiKey scheme that reads the Authorization header (legacy tokens)
	}
	return "unsupported"
}

// per-operation security options in terms of the two scheme keys A and B
var c11OpOptions = []string{"inherit", "[]", "[A]", "[B]", "[A,B]", "[A&B]"}

func c11Sec(opt string) *[]spec.SecReq {
	switch opt {
	case "inherit":
		return nil
	case "[]":
		return &[]spec.SecReq{}
	case "[A]":
		return &[]spec.SecReq{{"A"}}
	case "[B]":
		return &[]spec.SecReq{{"B"}}
	case "[A,B]":
		return &[]spec.SecReq{{"A"}, {"B"}}
	case "[A&B]":
		return &[]spec.SecReq{{"A", "B"}}
	}
	panic(opt)
}

func C11(run *report.Run) {
	env := NewEnv(false)
	defer env.Close()
	supported := []string{"bearer", "apikey-hdr", "apikey-query"}
	unsupported := []string{"basic", "apikey-cookie", "oauth2", "oidc"}
	type pair struct{ a, b string }
	var pairs []pair
	for i, a := range supported {
		for _, b := range supported[i+1:] {
			pairs = append(pairs, pair{a, b}, pair{b, a})
		}
	}
	if run.Tier == "thorough" {
		for _, a := range supported {
			for _, u := range unsupported {
				pairs = append(pairs, pair{a, u}, pair{u, a})
			}
		}
	} else {
		pairs = append(pairs, pair{"bearer", "oauth2"}, pair{"basic", "apikey-hdr"}, pair{"oauth2", "apikey-hdr"}, pair{"oidc", "bearer"}, pair{"apikey-cookie", "apikey-query"})
	}
	// two schemes that read the same header
	pairs = append(pairs, pair{"bearer", "apikey-hdr-auth"}, pair{"apikey-hdr-auth", "bearer"})
	pairs = append(pairs, pair{"bearer-capital", "apikey-hdr"}, pair{"apikey-query", "bearer-capital"})
	globals := []string{"none", "[A]", "[A,B]"}
	nopsList := []int{2}
	if run.Tier == "thorough" {
		nopsList = []int{2, 3} // three operations only for supported-scheme pairs, see below
	}
	var states []BState
	seen := map[string]bool{}
	for _, nops := range nopsList {
		for _, pr := range pairs {
			if nops == 3 && (kindOfScheme(pr.a) == "unsupported" || kindOfScheme(pr.b) == "unsupported" || pr.a > pr.b) {
				continue
			}
			for _, g := range globals {
				for _, placement := range []string{"same-path", "different-paths"} {
					if nops == 3 && placement == "different-paths" {
						continue
					}
					// the credential headers may also be documented as ordinary header parameters (by the first
					// operation or the path item); that changes nothing about who may call what
					declares := []string{""}
					if nops == 2 && placement == "same-path" && (pr.a == "bearer" && pr.b == "apikey-hdr" || pr.a == "apikey-hdr" && pr.b == "bearer") {
						declares = []string{"", "op0", "pathitem"}
					}
					for _, declare := range declares {
						var rec func(opts []string)
						rec = func(opts []string) {
							if len(opts) < nops {
								for _, o := range c11OpOptions {
									rec(append(append([]string{}, opts...), o))
								}
								return
							}
							// symmetry: swapping the two operations on different paths gives the same state
							if placement == "different-paths" && opts[0] > opts[1] {
								return
							}
							if nops == 3 && !(opts[0] != opts[1] || opts[1] != opts[2]) {
								return // three equal operations add nothing over two
							}
							id := fmt.Sprintf("sec[A=%s,B=%s,global=%s,%s,ops=%s]", pr.a, pr.b, g, placement, strings.Join(opts, "|"))
							if declare != "" {
								id = fmt.Sprintf("sec[A=%s,B=%s,global=%s,%s,ops=%s,credentialHeadersDeclaredBy=%s]", pr.a, pr.b, g, placement, strings.Join(opts, "|"), declare)
							}
							if seen[id] {
								return
							}
							seen[id] = true
							sa, sb := cells.SchemeKinds[pr.a], cells.SchemeKinds[pr.b]
							sa.Key, sb.Key = "A", "B"
							s := &spec.Spec{}
							s.Comp.Security = []spec.SecScheme{sa, sb}
							if g != "none" {
								s.Security = c11Sec(g)
							}
							methods := []string{"GET", "POST", "PUT"}
							var sops []refmodel.SecOp
							for i, o := range opts {
								op := &spec.Op{Method: "GET", Security: c11Sec(o), Responses: []*spec.Response{{Status: "default", Desc: "d"}}}
								path := "/p"
								if placement == "same-path" {
									op.Method = methods[i]
									if i == 0 {
										s.Paths = append(s.Paths, &spec.PathItem{Template: path})
									}
									s.Paths[0].Ops = append(s.Paths[0].Ops, op)
								} else {
									path = fmt.Sprintf("/p%d", i)
									s.Paths = append(s.Paths, &spec.PathItem{Template: path, Ops: []*spec.Op{op}})
								}
								if declare != "" && i == 0 {
									var ps []*spec.Param
									for _, sc := range []spec.SecScheme{sa, sb} {
										n := sc.Name
										if sc.Type == "http" {
											n = "Authorization"
										}
										ps = append(ps, &spec.Param{Name: n, In: "header", Schema: spec.T("string")})
									}
									if declare == "op0" {
										op.Params = ps
									} else {
										s.Paths[0].Params = ps
									}
								}
								var eff [][]string
								for _, alt := range s.EffectiveSecurity(op) {
									eff = append(eff, append([]string{}, alt...))
								}
								sops = append(sops, refmodel.SecOp{Method: op.Method, Path: path, Effective: eff})
							}
							schemes := []refmodel.Scheme{{Key: "A", Kind: kindOfScheme(pr.a), Name: sa.Name}, {Key: "B", Kind: kindOfScheme(pr.b), Name: sb.Name}}
							pl := &drv.SecPayload{State: id, Schemes: schemes, Ops: sops}
							states = append(states, BState{ID: id, Attrs: map[string]string{"A": pr.a, "B": pr.b, "global": g, "placement": placement, "declared": declare}, Gen: &genrun.Job{Spec: s.YAML()}, Prop: "C11", Payload: pl})
						}
						rec(nil)
					}
				}
			}
		}
	}
	sort.Slice(states, func(i, j int) bool { return states[i].ID < states[j].ID })
	st := RunBatch(run, env, states, 300)
	run.Cov["states"] = st.Healthy
	run.Cov["transitions"] = st.Counters["requests"]
	run.Cov["traces_validated_against_impl"] = st.Counters["requests"]
	run.Cov["outcome_classes"] = map[string]int64{"served": st.Counters["served"], "rejected": st.Counters["rejected"], "unauthorized": st.Counters["unauthorized"]}
	run.Cov["masked_states"] = st.Masked
	run.Cov["masked_why"] = st.MaskedWhy
	run.Cov["enumerated_states"] = st.States
	run.Cov["rule"] = "state = (scheme kinds A,B) × global {none,[A],[A,B]} × 2 operations {same path, different paths} × per-operation {inherit, [], [A], [B], [A,B], [A and B]}; transition = one request to one operation with each scheme's credential absent/valid/invalid, under every subset of authenticators installed/nil; oracle = reference evaluator of the effective requirement"
}
