package props

import (
	"bytes"
	"encoding/json"
	"fmt"
	"os"
	"os/exec"
	"path/filepath"
	"sort"
	"strings"

	"verif/cells"
	"verif/genrun"
	"verif/report"
	"verif/spec"
)

func init() {
	Registry["C19"] = C19
	Replayers["C19"] = c19Replay
}

// The directory model: the five names the README/flags document are goag's; everything else is the user's.
var c19Owned = map[string]bool{"components.go": true, "handler.go": true, "router.go": true, "spec_file.go": true, "client.go": true}

func c19Specs() map[string][]byte {
	s0, _, _ := cells.Base()
	s1, _, op1 := cells.Base()
	s1.Comp.Schemas = []spec.NamedSchema{{Name: "Top", Schema: spec.Obj(spec.P("a", spec.T("string")))}}
	op1.Responses = []*spec.Response{{Status: "200", Desc: "r", Schema: spec.RefTo("Top")}}
	s2, pi2, op2 := cells.Base()
	pi2.Template = "/q/{id}"
	op2.Method = "POST"
	op2.Params = []*spec.Param{{Name: "id", In: "path", Required: true, Schema: spec.TF("integer", "int64")}}
	s2.Comp.Schemas = []spec.NamedSchema{{Name: "Other", Schema: spec.Arr(spec.T("string"))}}
	op2.Body = &spec.Body{Schema: spec.RefTo("Other"), Required: true}
	// S3: a components section without anything rendered into components.go (security scheme and parameter only)
	s3, _, op3 := cells.Base()
	s3.Comp.Security = []spec.SecScheme{{Key: "b", Type: "http", Scheme: "bearer"}}
	s3.Comp.Params = []spec.NamedParam{{Name: "Q", Param: &spec.Param{Name: "q", In: "query", Schema: spec.T("string")}}}
	op3.Params = []*spec.Param{{Ref: "Q"}}
	op3.Security = &[]spec.SecReq{{"b"}}
	op3.Responses = []*spec.Response{{Status: "200", Desc: "r", Schema: spec.Obj(spec.P("a", spec.T("string")))}}
	// S1w: the document S1 in another physical form (re-indented: only white space differs)
	var s1w bytes.Buffer
	if err := json.Indent(&s1w, s1.YAML(), "", "      "); err != nil {
		s1w.Write(append(s1.YAML(), '\n', '\n'))
	}
	// S1x: S1 plus one more component that renders last (every file of S1 is a byte prefix candidate)
	s1x, _, op1x := cells.Base()
	s1x.Comp.Schemas = []spec.NamedSchema{{Name: "Top", Schema: spec.Obj(spec.P("a", spec.T("string")))}, {Name: "Zzz", Schema: spec.Obj(spec.P("z", spec.T("string")))}}
	op1x.Responses = []*spec.Response{{Status: "200", Desc: "r", Schema: spec.RefTo("Top")}}
	return map[string][]byte{"S0": s0.YAML(), "S1": s1.YAML(), "S2": s2.YAML(), "S3": s3.YAML(), "S1w": s1w.Bytes(), "S1x": s1x.YAML()}
}

func c19Events(specNames []string) []genrun.Step {
	sp := c19Specs()
	var out []genrun.Step
	for _, sn := range specNames {
		for _, client := range []bool{false, true} {
			for _, api := range []bool{true, false} {
				out = append(out, genrun.Step{Name: fmt.Sprintf("%s/client=%s/api=%s", sn, b01(client), b01(api)), Spec: sp[sn], Client: client, NoAPI: !api})
			}
		}
	}
	return out
}

var c19Inits = map[string]map[string]string{
	"empty": {},
	"userfiles": {
		// a user file in the same package whose import shadows a standard-library package name
		"mine.go":      "package gen\n\nimport log \"example.com/shop/internal/log\"\n\nfunc mine() { log.Println(\"x\"); log.Printf(\"%v\", 1) }\n",
		"README.md":    "user readme\n",
		"sub/keep.txt": "keep\n",
		"mine_test.go": "package gen\n",
	},
	"staleowned": {
		"client.go":     "package gen\n\n// hand edited\nvar Stale = 1\n",
		"components.go": "package gen\n\n// hand edited\nvar Stale2 = 1\n",
		"notes.txt":     "n\n",
	},
}

func ownedPart(t genrun.Tree) genrun.Tree {
	o := genrun.Tree{}
	for k, v := range t {
		if c19Owned[k] {
			o[k] = v
		}
	}
	return o
}

func userPart(t genrun.Tree) genrun.Tree {
	o := genrun.Tree{}
	for k, v := range t {
		if !c19Owned[k] {
			o[k] = v
		}
	}
	return o
}

func treeKey(t genrun.Tree) string {
	ks := make([]string, 0, len(t))
	for k := range t {
		ks = append(ks, k)
	}
	sort.Strings(ks)
	var b strings.Builder
	for _, k := range ks {
		fmt.Fprintf(&b, "%s=%s;", k, t[k][:min(12, len(t[k]))])
	}
	return b.String()
}

type c19diff struct{ file, kind string }

// c19Judge compares the directory after event e with the model: owned part = fresh(e)'s, user part = untouched.
func c19Judge(after, fresh, userBefore genrun.Tree) []c19diff {
	var out []c19diff
	for f := range c19Owned {
		want, w := fresh[f]
		got, g := after[f]
		switch {
		case w && !g:
			out = append(out, c19diff{f, "missing"})
		case !w && g:
			out = append(out, c19diff{f, "stale"})
		case w && g && want != got:
			out = append(out, c19diff{f, "differs"})
		}
	}
	ua := userPart(after)
	for f, h := range userBefore {
		if ua[f] != h {
			out = append(out, c19diff{f, "user-file-touched"})
		}
	}
	for f := range ua {
		if _, ok := userBefore[f]; !ok {
			out = append(out, c19diff{f, "unexpected-file"})
		}
	}
	sort.Slice(out, func(i, j int) bool { return out[i].file+out[i].kind < out[j].file+out[j].kind })
	return out
}

func C19(run *report.Run) {
	env := NewEnv(true)
	defer env.Close()
	specNames := []string{"S0", "S1", "S3", "S1w", "S1x"}
	if run.Tier == "thorough" {
		specNames = []string{"S0", "S1", "S2", "S3", "S1w", "S1x"}
	}
	events := c19Events(specNames)
	// the banner flag: the same events without the DO NOT EDIT header (files are goag's either way)
	for _, e := range c19Events([]string{"S0", "S1"}) {
		e.Name += "/dne=0"
		e.NoDNE = true
		events = append(events, e)
	}
	// fresh(e): each event run once into an empty directory
	fresh := map[string]genrun.Tree{}
	{
		var jobs []*genrun.Job
		for i, e := range events {
			jobs = append(jobs, &genrun.Job{ID: fmt.Sprintf("f%03d", i), OutDir: filepath.Join(env.Scratch, "fresh", fmt.Sprint(i)), Steps: []genrun.Step{e}})
		}
		for i, r := range env.Pool.RunAll(jobs, nil) {
			if r.Hist == nil || r.Hist.Outcomes[0] != "success" {
				internal("fresh run of %s failed: %v", events[i].Name, r)
			}
			fresh[events[i].Name] = r.Hist.Trees[0]
		}
	}
	// bind the model of an invocation to the real CLI: same tree from the command-line tool
	c19CLI(run, env, events, fresh)

	var transitions, histories int64
	stateSet := map[string]bool{}
	judgeHistory := func(initName string, init map[string]string, steps []genrun.Step, hr *genrun.HistResult) {
		blobs := map[string]string{}
		dir := filepath.Join(env.Scratch, "inittree")
		os.RemoveAll(dir)
		userBefore := genrun.Tree{}
		for p, c := range init {
			if !c19Owned[p] {
				userBefore[p] = sha(c)
				for d := filepath.Dir(p); d != "."; d = filepath.Dir(d) {
					userBefore[d] = "dir"
				}
			}
		}
		_ = blobs
		for i, st := range steps {
			transitions++
			stateSet[treeKey(hr.Trees[i])] = true
			if hr.Outcomes[i] != "success" {
				// a failing invocation: only the user's files are judged
				for _, d := range c19Judge(hr.Trees[i], ownedPart(hr.Trees[i]), userBefore) {
					c19Violate(run, initName, init, steps[:i+1], d, hr.Outcomes[i])
				}
				continue
			}
			for _, d := range c19Judge(hr.Trees[i], ownedPart(fresh[st.Name]), userBefore) {
				c19Violate(run, initName, init, steps[:i+1], d, "")
			}
			if i > 0 && steps[i-1].Name == st.Name && hr.Outcomes[i-1] == "success" && treeKey(hr.Trees[i-1]) != treeKey(hr.Trees[i]) {
				c19Violate(run, initName, init, steps[:i+1], c19diff{"*", "not-idempotent"}, "")
			}
		}
	}

	// (i) literally every history of length <= 3 over the event alphabet, from every initial state in quick
	// only from the empty directory for length 3; length <= 2 from the other initial states
	var jobs []*genrun.Job
	type hinfo struct {
		initName string
		steps    []genrun.Step
	}
	var infos []hinfo
	add := func(initName string, steps []genrun.Step) {
		id := fmt.Sprintf("h%06d", len(jobs))
		jobs = append(jobs, &genrun.Job{ID: id, OutDir: filepath.Join(env.Scratch, "hist", id), Init: c19Inits[initName], Steps: steps})
		infos = append(infos, hinfo{initName, steps})
	}
	q8 := c19Events([]string{"S0", "S1"})
	if run.Tier == "thorough" {
		q8 = events // all 12 events at length <= 3
	}
	for _, a := range q8 {
		add("empty", []genrun.Step{a})
		for _, b := range q8 {
			add("empty", []genrun.Step{a, b})
			for _, c := range q8 {
				add("empty", []genrun.Step{a, b, c})
			}
		}
	}
	for _, in := range []string{"empty", "userfiles", "staleowned"} {
		for _, a := range events {
			add(in, []genrun.Step{a})
			for _, b := range events {
				add(in, []genrun.Step{a, b})
				if run.Tier == "thorough" {
					for _, c := range events {
						add(in, []genrun.Step{a, b, c})
					}
				}
			}
		}
	}
	results := env.Pool.RunAll(jobs, nil)
	for i, r := range results {
		if r.Hist == nil {
			internal("history job failed: %s %s", r.Outcome, r.Msg)
		}
		histories++
		judgeHistory(infos[i].initName, c19Inits[infos[i].initName], infos[i].steps, r.Hist)
		if i%211 == 0 {
			names := []string{}
			for _, s := range infos[i].steps {
				names = append(names, s.Name)
			}
			run.Sample(map[string]any{"init": infos[i].initName, "history": names, "final_tree": r.Hist.Trees[len(r.Hist.Trees)-1]})
		}
	}
	run.Cov["histories_literal"] = histories

	// (ii) thorough: breadth-first search over directory states to a fixpoint, 12 events + a failing invocation
	if run.Tier == "thorough" {
		c19BFS(run, env, events, fresh, &transitions, stateSet)
	}
	run.Cov["states"] = len(stateSet)
	run.Cov["transitions"] = transitions
	run.Cov["traces_validated_against_impl"] = transitions
	run.Cov["events"] = len(events)
	run.Cov["rule"] = "state = canonical content of the output directory (path -> sha256); transition = one real Generate invocation; oracle = owned files equal a fresh run of the last event, user files untouched, repeat is a no-op"
	run.Assumptions = []string{"Generate reads the directory only through os.Remove and O_TRUNC opens, so equal contents have equal futures (states merged by content in the BFS)"}
}

func sha(s string) string {
	t := genrun.Tree{}
	_ = t
	return genrun.ShaHex([]byte(s))
}

func c19Violate(run *report.Run, initName string, init map[string]string, steps []genrun.Step, d c19diff, failed string) {
	names := []string{}
	for _, s := range steps {
		names = append(names, s.Name)
	}
	last := steps[len(steps)-1]
	prev := "-"
	if len(steps) > 1 {
		prev = steps[len(steps)-2].Name
	}
	attrs := map[string]string{"file": d.file, "kind": d.kind, "init": initName, "last": last.Name}
	_ = prev
	run.Violate(&report.Violation{Attrs: attrs, State: "init=" + initName + " history=" + strings.Join(names, " ; "),
		Observed: fmt.Sprintf("%s: %s %s", d.file, d.kind, failed), Expected: "owned files = fresh run of the last invocation; other files untouched; repeating an invocation changes nothing",
		Detail: map[string]any{"init": init, "steps": steps}})
}

func c19BFS(run *report.Run, env *Env, events []genrun.Step, fresh map[string]genrun.Tree, transitions *int64, stateSet map[string]bool) {
	invalid := genrun.Step{Name: "invalid-spec", Spec: []byte("{\"openapi\":\"3.0.3\",\"info\":{\"title\":\"t\",\"version\":\"1\"},\"paths\":{\"/p\":{\"get\":{\"parameters\":[{\"$ref\":\"#/components/parameters/Missing\"}],\"responses\":{}}}}}")}
	all := append(append([]genrun.Step{}, events...), invalid)
	type state struct {
		content map[string]string // path -> content
		depth   int
		init    string
	}
	seen := map[string]bool{}
	var frontier []state
	for name, init := range c19Inits {
		k := contentKey(init)
		if !seen[k] {
			seen[k] = true
			frontier = append(frontier, state{init, 0, name})
		}
	}
	maxDepth := 0
	for len(frontier) > 0 && !run.OutOfTime() {
		var jobs []*genrun.Job
		type ti struct {
			s state
			e genrun.Step
		}
		var tis []ti
		for _, s := range frontier {
			for _, e := range all {
				id := fmt.Sprintf("b%06d", len(jobs))
				// the event twice: second application checks idempotence
				jobs = append(jobs, &genrun.Job{ID: id, OutDir: filepath.Join(env.Scratch, "bfs", id), Init: s.content, Steps: []genrun.Step{e, e}})
				tis = append(tis, ti{s, e})
			}
		}
		var next []state
		for i, r := range env.Pool.RunAll(jobs, nil) {
			if r.Hist == nil {
				internal("bfs job failed: %s", r.Msg)
			}
			t := tis[i]
			*transitions += 2
			userBefore := genrun.Tree{}
			for p, c := range t.s.content {
				if !c19Owned[p] {
					userBefore[p] = sha(c)
					for d := filepath.Dir(p); d != "."; d = filepath.Dir(d) {
						userBefore[d] = "dir"
					}
				}
			}
			after := r.Hist.Trees[0]
			stateSet[treeKey(after)] = true
			steps := []genrun.Step{t.e}
			if r.Hist.Outcomes[0] == "success" {
				for _, d := range c19Judge(after, ownedPart(fresh[t.e.Name]), userBefore) {
					c19Violate(run, t.s.init+"+bfs", t.s.content, steps, d, "")
				}
				if treeKey(after) != treeKey(r.Hist.Trees[1]) {
					c19Violate(run, t.s.init+"+bfs", t.s.content, []genrun.Step{t.e, t.e}, c19diff{"*", "not-idempotent"}, "")
				}
			} else {
				for _, d := range c19Judge(after, ownedPart(after), userBefore) {
					c19Violate(run, t.s.init+"+bfs", t.s.content, steps, d, r.Hist.Outcomes[0])
				}
			}
			// successor state content
			content := map[string]string{}
			for p, h := range after {
				if h == "dir" {
					continue
				}
				content[p] = r.Hist.Blobs[h]
			}
			k := contentKey(content)
			if !seen[k] {
				seen[k] = true
				next = append(next, state{content, t.s.depth + 1, t.s.init})
				if t.s.depth+1 > maxDepth {
					maxDepth = t.s.depth + 1
				}
			}
		}
		frontier = next
	}
	run.Cov["bfs_states"] = len(seen)
	run.Cov["bfs_longest_shortest_path"] = maxDepth
	run.Cov["bfs_fixpoint"] = len(frontier) == 0
	if len(frontier) != 0 {
		run.Cap("bfs stopped by the time budget before the fixpoint")
	}
}

func contentKey(c map[string]string) string {
	t := genrun.Tree{}
	for p, s := range c {
		t[p] = sha(s)
	}
	return treeKey(t)
}

// c19CLI runs the real command-line tool once per event into an empty directory and requires the
// same tree as the in-process invocation (binds the transition function to the shipped binary).
func c19CLI(run *report.Run, env *Env, events []genrun.Step, fresh map[string]genrun.Tree) {
	bin := filepath.Join(env.Scratch, "goag-cli")
	cmd := exec.Command("go", "build", "-o", bin, "github.com/vkd/goag/cmd/goag")
	cmd.Dir = report.VerifDir
	if out, err := cmd.CombinedOutput(); err != nil {
		internal("build cli: %v: %s", err, out)
	}
	n := 0
	for i, e := range events {
		dir := filepath.Join(env.Scratch, "cli", fmt.Sprint(i))
		os.MkdirAll(dir, 0o755)
		specFile := filepath.Join(env.Scratch, "cli", fmt.Sprintf("spec%d.yaml", i))
		os.WriteFile(specFile, e.Spec, 0o644)
		c := exec.Command(bin, "-file", specFile, "-out", dir, "-package", "gen", "-config", filepath.Join(env.Scratch, "none.yaml"),
			fmt.Sprintf("-client=%v", e.Client), fmt.Sprintf("-api-handler=%v", !e.NoAPI), fmt.Sprintf("-donotedit=%v", !e.NoDNE), "-spec-handler-name", "openapi.yaml")
		out, err := c.CombinedOutput()
		if err != nil {
			internal("cli failed on %s: %v: %s", e.Name, err, out)
		}
		t := genrun.ReadTree(dir, nil)
		if treeKey(t) != treeKey(fresh[e.Name]) {
			run.Violate(&report.Violation{Attrs: map[string]string{"kind": "cli-differs-from-library", "last": e.Name}, State: e.Name,
				Observed: "command-line tool and library invocation wrote different trees: " + treeKey(t) + " vs " + treeKey(fresh[e.Name]),
				Detail:   map[string]any{"init": map[string]string{}, "steps": []genrun.Step{e}}})
		}
		n++
	}
	run.Cov["cli_bound_events"] = n
}

func c19Replay(v *report.Violation) int {
	d, _ := json.Marshal(v.Detail)
	var det struct {
		Init  map[string]string `json:"init"`
		Steps []genrun.Step     `json:"steps"`
	}
	if err := json.Unmarshal(d, &det); err != nil || len(det.Steps) == 0 {
		fmt.Fprintln(os.Stderr, "bad replay file")
		return 2
	}
	dir, cleanup := report.Scratch(true)
	defer cleanup()
	last := det.Steps[len(det.Steps)-1]
	fr := genrun.RunHistory(&genrun.Job{OutDir: filepath.Join(dir, "fresh"), Steps: []genrun.Step{last}})
	hr := genrun.RunHistory(&genrun.Job{OutDir: filepath.Join(dir, "hist"), Init: det.Init, Steps: det.Steps})
	userBefore := genrun.Tree{}
	for p, c := range det.Init {
		if !c19Owned[p] {
			userBefore[p] = sha(c)
			for d := filepath.Dir(p); d != "."; d = filepath.Dir(d) {
				userBefore[d] = "dir"
			}
		}
	}
	for i, s := range det.Steps {
		fmt.Printf("step %d: %s -> %s\n   tree: %v\n", i, s.Name, firstLineOf(hr.Outcomes[i]), hr.Trees[i])
	}
	fmt.Printf("fresh(%s): %v\n", last.Name, fr.Trees[0])
	diffs := c19Judge(hr.Trees[len(hr.Trees)-1], ownedPart(fr.Trees[0]), userBefore)
	for _, df := range diffs {
		fmt.Printf("  %s: %s\n", df.file, df.kind)
	}
	if len(diffs) > 0 {
		fmt.Printf("VIOLATION property=C19 replay=(this file)\n")
		return 1
	}
	return 0
}
