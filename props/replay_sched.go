package props

import (
	"fmt"

	"verif/report"
)

// Schedule-exploration properties: the replay re-runs the (deterministic, exhaustive) exploration of
// the recorded scenario at the quick tier outside of any evidence writing and reports whether the
// violation class reproduces; the recorded schedule is printed for reference.
func init() {
	Replayers["C12"] = func(v *report.Violation) int { return replayByRerun("C12", v, C12) }
	Replayers["C20"] = func(v *report.Violation) int { return replayByRerun("C20", v, C20) }
}

func replayByRerun(id string, v *report.Violation, f func(*report.Run)) int {
	fmt.Printf("recorded counterexample: state %s, %s\n  %s\n", v.State, trunc(v.Input, 400), trunc(v.Observed, 600))
	run := report.NewReplayRun(id)
	f(run)
	return run.Finish()
}
