package props

import (
	"encoding/json"
	"fmt"
	"os"
	"path/filepath"
	"strings"

	"verif/batch"
	"verif/drv"
	"verif/genrun"
	"verif/instr"
	"verif/report"
	"verif/spec"
)

func init() { Registry["C20"] = C20 }

// c20Spec: one spec with the operations the scenarios use: parameters in every location + JSON body +
// security + response with header and body; a raw body in/out; the spec-file route.
func c20Spec() *spec.Spec {
	s := &spec.Spec{}
	s.Comp.Schemas = []spec.NamedSchema{
		{Name: "Item", Schema: spec.Obj(spec.P("name", spec.T("string")), spec.P("n", spec.TF("integer", "int32")), spec.P("tags", spec.Arr(spec.T("string"))), spec.P("opt", spec.T("string"))).Req("name", "n", "tags")},
		{Name: "Items", Schema: spec.Arr(spec.RefTo("Item"))},
		{Name: "Echo", Schema: spec.Obj(spec.P("echo", spec.T("string")), spec.P("n", spec.TF("integer", "int32")), spec.P("list", spec.RefTo("Items"))).Req("echo", "n")},
	}
	s.Comp.Security = []spec.SecScheme{{Key: "b", Type: "http", Scheme: "bearer"}, {Key: "k", Type: "apiKey", In: "header", Name: "X-Key"}}
	s.Paths = []*spec.PathItem{
		{Template: "/items/{id}", Params: []*spec.Param{{Name: "id", In: "path", Required: true, Schema: spec.T("string")}},
			Ops: []*spec.Op{{Method: "POST", ID: "echoItem", Security: &[]spec.SecReq{{"b"}},
				Params:    []*spec.Param{{Name: "q", In: "query", Required: true, Schema: spec.T("string")}, {Name: "X-Tag", In: "header", Schema: spec.T("string")}, {Name: "tags", In: "query", Schema: spec.Arr(spec.T("string"))}},
				Body:      &spec.Body{Schema: spec.RefTo("Item"), Required: true},
				Responses: []*spec.Response{{Status: "200", Desc: "r", Schema: spec.RefTo("Echo"), Headers: []*spec.Header{{Name: "X-Echo", Required: true, Schema: spec.T("string")}}}, {Status: "default", Desc: "d"}}}}},
		{Template: "/raw/{id}", Params: []*spec.Param{{Name: "id", In: "path", Required: true, Schema: spec.T("string")}},
			Ops: []*spec.Op{{Method: "PUT", ID: "putRaw", Security: &[]spec.SecReq{{"k"}}, Body: &spec.Body{ContentType: "application/octet-stream", Schema: spec.TF("string", "binary")},
				Responses: []*spec.Response{{Status: "200", Desc: "r", ContentType: "application/octet-stream", Schema: spec.TF("string", "binary")}, {Status: "default", Desc: "d"}}}}},
	}
	return s
}

func C20(run *report.Run) {
	env := NewEnv(false)
	defer env.Close()
	defer batch.CleanupCache()
	sp := c20Spec()
	// generate once (plain), then make the instrumented copy
	root := filepath.Join(env.Scratch, "c20")
	os.MkdirAll(filepath.Join(root, "gen"), 0o755)
	mk := func(name string) *genrun.Result {
		j := batch.GenJob(root, name, &genrun.Job{ID: name, Spec: sp.YAML(), Client: true, KeepFiles: true})
		r := env.Pool.RunAll([]*genrun.Job{j}, nil)[0]
		if !r.Healthy() {
			run.Violate(&report.Violation{Attrs: map[string]string{"kind": "scenario-spec-does-not-generate"}, State: "c20-spec", Observed: fmt.Sprintf("%s %s %v %v", r.Outcome, r.Msg, r.SyntaxErr, r.TypeErr), Detail: map[string]any{"job": j}})
			return nil
		}
		return r
	}
	plain := mk("p00000")
	if plain == nil {
		return
	}
	type variant struct {
		pkg, mode string
		bound     int
		scenarios [][]string
		maxExec   int64
	}
	var variants []variant
	if run.Tier == "quick" {
		variants = []variant{
			{"p00001", "shared", 2, [][]string{{"echo", "echo"}, {"echo", "raw"}, {"raw", "raw"}, {"echo", "spec"}, {"spec", "spec"}, {"spec", "fail"}, {"echo", "fail"}, {"miss", "miss"}, {"echo", "miss"}}, 400000},
			{"p00002", "all", 1, [][]string{{"echo", "echo"}, {"echo", "raw"}}, 400000},
			{"p00003", "shared", 1, [][]string{{"echo", "echo", "raw"}, {"echo", "spec", "fail"}}, 400000},
		}
	} else {
		variants = []variant{
			{"p00001", "shared", 3, [][]string{{"echo", "echo"}, {"echo", "raw"}, {"raw", "raw"}, {"echo", "spec"}, {"spec", "spec"}, {"spec", "fail"}, {"echo", "fail"}, {"miss", "miss"}, {"echo", "miss"}}, 3000000},
			{"p00002", "all", 2, [][]string{{"echo", "echo"}, {"echo", "raw"}, {"raw", "raw"}}, 3000000},
			{"p00003", "shared", 2, [][]string{{"echo", "echo", "echo"}, {"echo", "raw", "spec"}, {"echo", "echo", "fail"}}, 3000000},
		}
	}
	files := map[string][]byte{}
	for n, c := range plain.Content {
		if n != "zz_registry.go" {
			files[n] = []byte(c)
		}
	}
	pointsPerMode := map[string]int{}
	shared := map[string]bool{}
	var pkgs []string
	for _, v := range variants {
		if mk(v.pkg) == nil {
			return
		}
		inst, st, err := instr.Instrument(files, v.mode)
		if err != nil {
			internal("instrument generated code: %v", err)
		}
		pointsPerMode[v.mode] = st.Points
		for k := range st.SharedVars {
			shared[k] = true
		}
		for n, src := range inst {
			// the package clause must name this variant's package
			src2 := strings.Replace(string(src), "package p00000", "package "+v.pkg, 1)
			if err := os.WriteFile(filepath.Join(batch.PkgDir(root, v.pkg), n), []byte(src2), 0o644); err != nil {
				internal("%v", err)
			}
		}
		pkgs = append(pkgs, v.pkg)
	}
	// (1) controlled scheduler exploration, one process per variant (the scheduler is process-global)
	b, err := batch.Build(root, append([]string{"p00000"}, pkgs...))
	if err != nil {
		internal("%v", err)
	}
	if len(b.Failed) > 0 {
		internal("instrumented package does not compile: %v", b.Failed)
	}
	var totalExec, totalDec int64
	perScenario := map[string]any{}
	for _, v := range variants {
		pl := &drv.ConcPayload{State: "c20:" + v.mode, Mode: "explore", Scenarios: v.scenarios, Bound: v.bound, MaxExec: v.maxExec, EchoPath: "/items/", RawPath: "/raw/", SpecPath: "/openapi.yaml"}
		bs, _ := json.Marshal(pl)
		b.Env = []string{"GOMAXPROCS=1"}
		res, err := b.Run([]drv.Job{{ID: v.pkg, Pkg: v.pkg, Prop: "C20", Payload: bs}})
		if err != nil {
			internal("%v", err)
		}
		r := res[v.pkg]
		if r == nil || r.Internal != "" {
			internal("c20 driver: %v", r)
		}
		totalExec += r.Counters["executions"]
		totalDec += r.Counters["decisions"]
		for i, sc := range v.scenarios {
			perScenario[fmt.Sprintf("%s/bound%d/%s", v.mode, v.bound, strings.Join(sc, "+"))] = map[string]int64{
				"executions": r.Counters[fmt.Sprintf("scenario%d-executions", i)], "max_points": r.Counters[fmt.Sprintf("scenario%d-maxpoints", i)],
				"bound_completed": r.Counters[fmt.Sprintf("scenario%d-bound-completed", i)], "distinct_outcomes": r.Counters[fmt.Sprintf("scenario%d-outcomes", i)]}
		}
		if r.Counters["capped"] > 0 || r.Counters["bound-not-completed"] > 0 {
			run.Cap(fmt.Sprintf("variant %s: execution cap reached before the preemption bound %d was completed in some scenario", v.mode, v.bound))
		}
		for _, vi := range r.Violations {
			run.Violate(&report.Violation{Attrs: mergeAttrs(vi.Attrs, map[string]string{"points": v.mode}), State: pl.State, Input: vi.Input, Observed: vi.Observed, Expected: vi.Expected,
				Detail: map[string]any{"driver": vi.Detail, "variant": v}})
		}
	}
	// (2) free-running pass under the race detector: the cooperative scheduler's hand-offs are
	// happens-before edges, so the detector is blind inside the explorer; here it can see
	raceRoot := filepath.Join(env.Scratch, "c20race")
	os.MkdirAll(filepath.Join(raceRoot, "gen"), 0o755)
	os.MkdirAll(batch.PkgDir(raceRoot, "p00000"), 0o755)
	for n, c := range plain.Content {
		os.WriteFile(filepath.Join(batch.PkgDir(raceRoot, "p00000"), n), []byte(c), 0o644)
	}
	if reg, err := os.ReadFile(filepath.Join(batch.PkgDir(root, "p00000"), "zz_registry.go")); err == nil {
		os.WriteFile(filepath.Join(batch.PkgDir(raceRoot, "p00000"), "zz_registry.go"), reg, 0o644)
	}
	rb, err := batch.BuildWith(raceRoot, []string{"p00000"}, true)
	raceRuns := 0
	if err != nil {
		run.Cap("race-detector build unavailable: " + trunc(err.Error(), 200))
	} else {
		for _, procs := range []string{"2", "16"} {
			pl := &drv.ConcPayload{State: "c20:free", Mode: "free", EchoPath: "/items/", RawPath: "/raw/", SpecPath: "/openapi.yaml", FreeCalls: 64}
			bs, _ := json.Marshal(pl)
			rb.Env = []string{"GOMAXPROCS=" + procs, "GORACE=halt_on_error=0 exitcode=0"}
			res, err := rb.Run([]drv.Job{{ID: "free", Pkg: "p00000", Prop: "C20", Payload: bs}})
			if err != nil {
				// the free-running binary died: a crash caused by generated code racing (the runtime's
				// "concurrent map" fatal errors, or a race report followed by a crash) is a finding, not a harness fault
				msg := err.Error() + "\n" + rb.Stderr
				if (strings.Contains(msg, "WARNING: DATA RACE") || strings.Contains(msg, "fatal error: concurrent map")) && strings.Contains(msg, "batch/gen/") {
					kind := "race-detector"
					if strings.Contains(msg, "fatal error: concurrent map") {
						kind = "concurrent-map-crash"
					}
					run.Violate(&report.Violation{Attrs: map[string]string{"kind": kind, "loc": raceLoc(msg)}, State: "c20:free GOMAXPROCS=" + procs,
						Observed: trunc(msg, 1500), Expected: "no data race in generated code", Detail: map[string]any{"report": trunc(msg, 6000)}})
					raceRuns++
					continue
				}
				internal("free-running pass: %v", err)
			}
			raceRuns++
			if strings.Contains(rb.Stderr, "WARNING: DATA RACE") {
				rep := rb.Stderr
				// only races that involve generated code are reported (the harness is race-free by construction; a
				// report without a gen/ frame would be a harness fault)
				if strings.Contains(rep, "batch/gen/") {
					run.Violate(&report.Violation{Attrs: map[string]string{"kind": "race-detector", "loc": raceLoc(rep)}, State: "c20:free GOMAXPROCS=" + procs,
						Observed: trunc(rep, 1500), Expected: "no data race in generated code", Detail: map[string]any{"report": trunc(rep, 6000)}})
				} else {
					internal("race in harness code: %s", trunc(rep, 1500))
				}
			}
			if r := res["free"]; r != nil {
				for _, vi := range r.Violations {
					run.Violate(&report.Violation{Attrs: vi.Attrs, State: pl.State, Observed: vi.Observed})
				}
				run.Count("free_running_calls", r.Counters["free-calls"])
			}
		}
	}
	run.Cov["states"] = totalExec
	run.Cov["transitions"] = totalDec
	run.Cov["traces_validated_against_impl"] = totalExec
	run.Cov["scenarios"] = perScenario
	run.Cov["scheduling_points_inserted"] = pointsPerMode
	var sv []string
	for k := range shared {
		sv = append(sv, k)
	}
	run.Cov["shared_locations_monitored"] = sv
	run.Cov["race_detector_runs"] = raceRuns
	run.Cov["rule"] = "state = one complete execution of 2-3 logical threads (client call -> in-memory transport -> API.ServeHTTP -> handler -> response) under one schedule; scheduling points are inserted into the GENERATED code before every statement (mode all) or before every statement touching package-level variables / API / Client fields (mode shared); all schedules with at most `bound` preemptions are executed (iterative context bounding); oracle per execution: tagged-value isolation, no conflicting access pair in the access log, no panic; violating schedules are replayed twice before being reported"
	run.Assumptions = []string{"sequential consistency at statement granularity inside the explorer; unsynchronised accesses the monitor cannot see (library internals) are the free-running race-detector pass's business, which is sampling and can only raise sound alarms", "the scenario spec is fixed (parameters + JSON body + security + middlewares; raw body; spec route; failing writer)"}
}

func raceLoc(rep string) string {
	for _, l := range strings.Split(rep, "\n") {
		if i := strings.Index(l, "batch/gen/"); i >= 0 {
			l = strings.TrimSpace(l[i:])
			if j := strings.Index(l, "("); j > 0 {
				l = l[:j]
			}
			if j := strings.LastIndex(l, "."); j > 0 {
				return l[j+1:]
			}
			return l
		}
	}
	return ""
}
