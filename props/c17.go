package props

import (
	"fmt"
	"net/http"
	"strings"

	"verif/drv"
	"verif/genrun"
	"verif/report"
	"verif/spec"
)

func init() { Registry["C17"] = C17 }

// corsHeadersModel: canonicalised, de-duplicated union of the path's header parameters (path-item and
// operation level) and of the headers its operations' effective security schemes read.
func corsHeadersModel(s *spec.Spec, pi *spec.PathItem) []string {
	seen := map[string]bool{}
	var out []string
	add := func(h string) {
		k := http.CanonicalHeaderKey(h)
		if !seen[k] {
			seen[k] = true
			out = append(out, k)
		}
	}
	for _, o := range pi.Ops {
		for _, p := range s.EffectiveParams(pi, o) {
			if p.In == "header" {
				add(p.Name)
			}
		}
		for _, alt := range s.EffectiveSecurity(o) {
			for _, k := range alt {
				sc := s.Scheme(k)
				if sc == nil {
					continue
				}
				if sc.Type == "http" && strings.EqualFold(sc.Scheme, "bearer") {
					add("Authorization")
				}
				if sc.Type == "apiKey" && sc.In == "header" {
					add(sc.Name)
				}
			}
		}
	}
	return out
}

func C17(run *report.Run) {
	env := NewEnv(false)
	defer env.Close()
	methodSets := [][]string{{"GET"}, {"GET", "POST"}, {"POST", "PUT", "DELETE"}, {"GET", "POST", "PUT", "DELETE"}}
	if run.Tier == "thorough" {
		methodSets = nil
		all := []string{"GET", "POST", "PUT", "DELETE"}
		for m := 1; m < 16; m++ {
			var l []string
			for i, x := range all {
				if m&(1<<i) != 0 {
					l = append(l, x)
				}
			}
			methodSets = append(methodSets, l)
		}
	}
	hdrVariants := []string{"none", "op", "pathitem", "two-casings", "two-distinct", "ref", "three-pathitem+per-op", "credential-header-declared"}
	secVariants := []string{"none", "bearer-global", "apikey-op", "both", "bearer-op-override", "alternatives-later", "two-bearer-schemes", "bearer-capital-global", "apikey-query-op"}
	second := []string{"/q", "/a/{x}", "/a/{x}/c"}
	var states []BState
	for _, ms := range methodSets {
		for _, hv := range hdrVariants {
			for _, sv := range secVariants {
				for _, opt := range []bool{false, true} {
					for _, sp2 := range second {
						for _, sp2opt := range []bool{false, true} {
							for _, cors := range []bool{true, false} {
								if run.Tier == "quick" {
									// quick: the second path's OPTIONS only with the variable sibling; cors off only with the first method set
									if sp2opt && sp2 == "/q" {
										continue
									}
									if !cors && len(ms) != 2 {
										continue
									}
									// the later-added variants: against a reduced set of the other dimension
									newH := hv == "three-pathitem+per-op" || hv == "credential-header-declared"
									newS := sv == "two-bearer-schemes" || sv == "bearer-capital-global" || sv == "apikey-query-op"
									if newH && sv != "none" && sv != "bearer-global" && sv != "two-bearer-schemes" {
										continue
									}
									if newS && !newH && hv != "none" && hv != "op" {
										continue
									}
									if (newH || newS) && sp2 == "/a/{x}/c" {
										continue
									}
								}
								s := &spec.Spec{}
								primary := "/a/b"
								if sp2 == "/a/{x}/c" {
									primary = "/a/b/c" // three segments deep: static child next to a variable child with deeper paths
								}
								pi := &spec.PathItem{Template: primary}
								for i, m := range ms {
									op := &spec.Op{Method: m, Responses: []*spec.Response{{Status: "default", Desc: "d"}}}
									switch hv {
									case "op":
										if i == 0 {
											op.Params = []*spec.Param{{Name: "x-req-id", In: "header", Schema: spec.T("string")}}
										}
									case "two-casings":
										n := "x-req-id"
										if i%2 == 1 {
											n = "X-Req-ID"
										}
										op.Params = []*spec.Param{{Name: n, In: "header", Schema: spec.T("string")}}
									case "two-distinct":
										op.Params = []*spec.Param{{Name: "X-One", In: "header", Schema: spec.T("string")}}
										if i == len(ms)-1 {
											op.Params = append(op.Params, &spec.Param{Name: "x-two", In: "header", Schema: spec.TF("integer", "int32")})
										}
									case "ref":
										if i == 0 {
											op.Params = []*spec.Param{{Ref: "HP"}}
										}
									case "three-pathitem+per-op":
										// every operation adds a header of its own to three inherited ones
										op.Params = []*spec.Param{{Name: fmt.Sprintf("X-Op-%d", i), In: "header", Schema: spec.T("string")}}
									case "credential-header-declared":
										// the header a security scheme reads is also documented as an ordinary header parameter
										if i == 0 {
											op.Params = []*spec.Param{{Name: "Authorization", In: "header", Schema: spec.T("string")}, {Name: "X-Key", In: "header", Schema: spec.T("string")}}
										}
									}
									switch sv {
									case "apikey-op", "both", "apikey-query-op":
										if i == 0 {
											op.Security = &[]spec.SecReq{{"k"}}
										}
									case "bearer-op-override":
										if i == 0 {
											op.Security = &[]spec.SecReq{}
										}
									case "alternatives-later":
										// the first operation inherits the global bearer; the last lists bearer again and then a key
										if i == len(ms)-1 && i > 0 {
											op.Security = &[]spec.SecReq{{"b"}, {"k"}}
										}
									case "two-bearer-schemes":
										// two different schemes that read the same header: the first operation uses one, the others the other
										if i == 0 {
											op.Security = &[]spec.SecReq{{"b2"}}
										}
									}
									pi.Ops = append(pi.Ops, op)
								}
								if hv == "pathitem" {
									pi.Params = []*spec.Param{{Name: "x-req-id", In: "header", Schema: spec.T("string")}}
								}
								if hv == "three-pathitem+per-op" {
									pi.Params = []*spec.Param{{Name: "X-P1", In: "header", Schema: spec.T("string")}, {Name: "X-P2", In: "header", Schema: spec.T("string")}, {Name: "X-P3", In: "header", Schema: spec.T("string")}}
								}
								if hv == "ref" {
									s.Comp.Params = []spec.NamedParam{{Name: "HP", Param: &spec.Param{Name: "X-Ref-Hdr", In: "header", Schema: spec.T("string")}}}
								}
								if opt {
									pi.Ops = append(pi.Ops, &spec.Op{Method: "OPTIONS", Responses: []*spec.Response{{Status: "default", Desc: "d"}}})
								}
								switch sv {
								case "bearer-global", "bearer-op-override":
									s.Comp.Security = []spec.SecScheme{{Key: "b", Type: "http", Scheme: "bearer"}}
									s.Security = &[]spec.SecReq{{"b"}}
								case "apikey-op":
									s.Comp.Security = []spec.SecScheme{{Key: "k", Type: "apiKey", In: "header", Name: "x-key"}}
								case "two-bearer-schemes":
									s.Comp.Security = []spec.SecScheme{{Key: "b", Type: "http", Scheme: "bearer"}, {Key: "b2", Type: "http", Scheme: "bearer"}}
									s.Security = &[]spec.SecReq{{"b"}}
								case "apikey-query-op":
									// a key carried in the query string is not a request header
									s.Comp.Security = []spec.SecScheme{{Key: "k", Type: "apiKey", In: "query", Name: "api_key"}}
								case "bearer-capital-global":
									s.Comp.Security = []spec.SecScheme{{Key: "b", Type: "http", Scheme: "Bearer"}}
									s.Security = &[]spec.SecReq{{"b"}}
								case "both", "alternatives-later":
									s.Comp.Security = []spec.SecScheme{{Key: "b", Type: "http", Scheme: "bearer"}, {Key: "k", Type: "apiKey", In: "header", Name: "x-key"}}
									s.Security = &[]spec.SecReq{{"b"}}
								}
								pi2 := &spec.PathItem{Template: sp2}
								op2 := &spec.Op{Method: "DELETE", Responses: []*spec.Response{{Status: "default", Desc: "d"}}, Params: []*spec.Param{{Name: "X-Second", In: "header", Schema: spec.T("string")}}}
								pi2.Ops = []*spec.Op{op2}
								if strings.Contains(sp2, "{x}") {
									pi2.Params = []*spec.Param{{Name: "x", In: "path", Required: true, Schema: spec.T("string")}}
								}
								if sp2opt {
									pi2.Ops = append(pi2.Ops, &spec.Op{Method: "OPTIONS", Responses: []*spec.Response{{Status: "default", Desc: "d"}}})
								}
								s.Paths = []*spec.PathItem{pi, pi2}
								if sp2 == "/a/{x}/c" {
									s.Paths = append(s.Paths, &spec.PathItem{Template: "/a/b/d", Ops: []*spec.Op{{Method: "PUT", Responses: []*spec.Response{{Status: "default", Desc: "d"}}}}})
								}
								id := fmt.Sprintf("cors[methods=%s,hdr=%s,sec=%s,options=%s,second=%s,secondOptions=%s,cors=%s]", strings.Join(ms, "+"), hv, sv, b01(opt), sp2, b01(sp2opt), b01(cors))
								pl := &drv.CorsPayload{State: id, Cors: cors, Undeclared: []string{"/zz", "/a", "/a/b/c/zz"}}
								for _, p := range s.Paths {
									cp := drv.CorsPath{Path: p.Template, ReqPath: strings.ReplaceAll(p.Template, "{x}", "zz"), Headers: corsHeadersModel(s, p)}
									for _, o := range p.Ops {
										if o.Method == "OPTIONS" {
											cp.HasOptions = true
										}
										cp.Methods = append(cp.Methods, o.Method)
									}
									pl.Paths = append(pl.Paths, cp)
								}
								states = append(states, BState{ID: id, Attrs: map[string]string{"hdr": hv, "sec": sv, "options": b01(opt), "second": sp2, "secondOptions": b01(sp2opt)},
									Gen: &genrun.Job{Spec: s.YAML(), Cors: cors}, Prop: "C17", Payload: pl})
							}
						}
					}
				}
			}
		}
	}
	st := RunBatch(run, env, states, 300)
	run.Cov["states"] = st.Healthy
	run.Cov["transitions"] = st.Counters["requests"]
	run.Cov["traces_validated_against_impl"] = st.Counters["requests"]
	run.Cov["outcome_classes"] = map[string]int64{"preflight": st.Counters["preflight"], "declared-options": st.Counters["declared-options"], "expect-notfound": st.Counters["expect-notfound"]}
	run.Cov["masked_states"] = st.Masked
	run.Cov["masked_why"] = st.MaskedWhy
	run.Cov["enumerated_states"] = st.States
	run.Cov["rule"] = "state = path item /a/b with a method subset × header-parameter variant (none, operation, path-item, two casings, two distinct, component $ref) × security variant (none, bearer global, apiKey per operation, both, bearer with a public override) × explicit OPTIONS × a second path (/q or the variable sibling /a/{x}, with/without its own OPTIONS) × cors on/off; transition = OPTIONS to each declared and to undeclared paths with the CORS handler set/nil; oracle = set equality with the model's method and header sets"
}
