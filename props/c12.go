package props

import (
	"bytes"
	"encoding/json"
	"fmt"
	"os"
	"os/exec"
	"path/filepath"
	"sort"
	"strings"
	"sync"

	"verif/cells"
	"verif/genrun"
	"verif/maporder"
	"verif/report"
	"verif/spec"
)

func init() { Registry["C12"] = C12 }

type c12spec struct {
	ID       string `json:"id"`
	Spec     []byte `json:"spec"`
	Client   bool   `json:"client"`
	DNE      bool   `json:"dne"`
	Cors     bool   `json:"cors"`
	BasePath string `json:"basePath"`
}

// mapFat: at least 4 entries in every map-typed OpenAPI construct, including keys that differ only by
// letter case and keys whose sorted order differs from their insertion order.
func mapFat(variant int) []byte {
	s := &spec.Spec{Title: "fat", InfoDesc: "d"}
	s.Servers = []spec.Server{{URL: "https://{host}.example.com:{port}/{base}/{ver}", Vars: map[string]string{"host": "api", "port": "8443", "base": "b", "ver": "v1"}}}
	if variant == 1 {
		// a default that mentions another variable: the substitution order becomes observable
		s.Servers[0].Vars = map[string]string{"host": "api", "port": "8443", "base": "b{ver}", "ver": "v{zz}", "zz": "9"}
	}
	obj := func(n int) *spec.Schema {
		return spec.Obj(spec.P("zeta", spec.T("string")), spec.P("alpha", spec.TF("integer", "int32")), spec.P("Mid", spec.T("boolean")), spec.P("mid2", spec.Arr(spec.T("string")))).Req("zeta", "alpha")
	}
	s.Comp.Schemas = []spec.NamedSchema{
		{Name: "Zebra", Schema: obj(0)}, {Name: "Account", Schema: obj(1)}, {Name: "account", Schema: obj(2)}, {Name: "Mango", Schema: obj(3)},
		{Name: "Cat", Schema: spec.Obj(spec.P("kind", spec.T("string")), spec.P("a", spec.T("string"))).Req("kind")},
		{Name: "Dog", Schema: spec.Obj(spec.P("kind", spec.T("string")), spec.P("b", spec.T("string"))).Req("kind")},
		{Name: "Emu", Schema: spec.Obj(spec.P("kind", spec.T("string")), spec.P("c", spec.T("string"))).Req("kind")},
		{Name: "Fox", Schema: spec.Obj(spec.P("kind", spec.T("string")), spec.P("d", spec.T("string"))).Req("kind")},
		{Name: "Pet", Schema: &spec.Schema{OneOf: []*spec.Schema{spec.RefTo("Cat"), spec.RefTo("Dog"), spec.RefTo("Emu"), spec.RefTo("Fox")},
			Disc: &spec.Disc{Prop: "kind", Mapping: map[string]string{"cat": "Cat", "dog": "Dog", "emu": "Emu", "fox": "Fox", "kitten": "Cat", "puppy": "Dog"}}}},
		{Name: "Nested", Schema: spec.Obj(spec.P("inner", spec.Obj(spec.P("x", spec.T("string")), spec.P("y", spec.Obj(spec.P("z", spec.T("string")))))), spec.P("list", spec.Arr(spec.Obj(spec.P("q", spec.T("string"))))))},
		{Name: "Nested2", Schema: spec.Obj(spec.P("inner", spec.Obj(spec.P("x", spec.T("string")))), spec.P("other", spec.Obj(spec.P("w", spec.TF("integer", "int64")))))},
	}
	s.Comp.Params = []spec.NamedParam{
		{Name: "PZ", Param: &spec.Param{Name: "pz", In: "query", Schema: spec.T("string")}}, {Name: "PA", Param: &spec.Param{Name: "pa", In: "query", Schema: spec.T("string")}},
		{Name: "PH", Param: &spec.Param{Name: "X-Ph", In: "header", Schema: spec.T("string")}}, {Name: "PM", Param: &spec.Param{Name: "pm", In: "query", Schema: spec.TF("integer", "int32")}},
	}
	s.Comp.Headers = []spec.NamedHeader{{Name: "HZ", Header: &spec.Header{Schema: spec.T("string")}}, {Name: "HA", Header: &spec.Header{Schema: spec.T("string")}},
		{Name: "HM", Header: &spec.Header{Schema: spec.TF("integer", "int32")}}, {Name: "HB", Header: &spec.Header{Schema: spec.T("string")}}}
	s.Comp.Bodies = []spec.NamedBody{{Name: "BZ", Body: &spec.Body{Schema: spec.RefTo("Zebra")}}, {Name: "BA", Body: &spec.Body{Schema: spec.RefTo("Account")}},
		{Name: "BM", Body: &spec.Body{Schema: spec.RefTo("Mango")}}, {Name: "BB", Body: &spec.Body{Schema: spec.RefTo("Pet")}}}
	s.Comp.Responses = []spec.NamedResponse{{Name: "RZ", Response: &spec.Response{Desc: "r", Schema: spec.RefTo("Zebra")}}, {Name: "RA", Response: &spec.Response{Desc: "r", Schema: spec.RefTo("Account")}},
		{Name: "RM", Response: &spec.Response{Desc: "r", Schema: spec.RefTo("Mango")}}, {Name: "RB", Response: &spec.Response{Desc: "r", Schema: spec.RefTo("Nested")}}}
	s.Comp.Security = []spec.SecScheme{{Key: "zBearer", Type: "http", Scheme: "bearer"}, {Key: "aKey", Type: "apiKey", In: "header", Name: "X-A-Key"},
		{Key: "mKey", Type: "apiKey", In: "query", Name: "mkey"}, {Key: "bKey", Type: "apiKey", In: "header", Name: "X-B-Key"}, {Key: "oauth", Type: "oauth2"}}
	s.Security = &[]spec.SecReq{{"zBearer"}, {"aKey"}}
	resp := func() []*spec.Response {
		return []*spec.Response{
			{Status: "200", Desc: "r", Schema: spec.RefTo("Zebra"), Headers: []*spec.Header{{Name: "X-Z", Schema: spec.T("string")}, {Name: "X-A", Ref: "HA"}, {Name: "X-M", Ref: "HM"}, {Name: "X-B", Schema: spec.T("string")}}},
			{Status: "201", Ref: "RA"}, {Status: "404", Ref: "RM"}, {Status: "default", Desc: "d", Schema: spec.RefTo("Account")}}
	}
	for i, p := range []string{"/zebra/{id}", "/alpha", "/mango/{id}/sub", "/beta/x", "/alpha/", "/beta/x/", "/Alpha"} {
		pi := &spec.PathItem{Template: p}
		if strings.Contains(p, "{id}") {
			pi.Params = []*spec.Param{{Name: "id", In: "path", Required: true, Schema: spec.T("string")}}
		}
		for j, m := range []string{"GET", "POST", "PUT", "DELETE"} {
			op := &spec.Op{Method: m, Responses: resp(), Params: []*spec.Param{{Ref: "PZ"}, {Ref: "PA"}, {Ref: "PH"}, {Name: "inline", In: "query", Schema: spec.T("string")}}}
			if m == "POST" || m == "PUT" {
				op.Body = &spec.Body{Ref: []string{"BZ", "BA", "BM", "BB"}[(i+j)%4]}
			}
			if i >= 4 && j > 0 {
				continue // the trailing-slash twins carry one operation each
			}
			if variant == 1 && j == 0 {
				// a requirement naming several schemes, and several alternatives
				op.Security = &[]spec.SecReq{{"zBearer", "aKey", "mKey", "bKey"}, {"mKey"}}
			}
			if j == 3 {
				op.Security = &[]spec.SecReq{{"bKey"}, {"aKey"}, {"mKey"}, {"zBearer"}}
			}
			pi.Ops = append(pi.Ops, op)
		}
		s.Paths = append(s.Paths, pi)
	}
	d := s.Doc()
	// constructs the term algebra has no node for: extensions, several media types, OAuth scopes
	d["x-zeta"], d["x-alpha"], d["x-mid"], d["x-beta"] = 1, 2, 3, 4
	comps := d["components"].(spec.M)
	sch := comps["schemas"].(spec.M)
	z := sch["Zebra"].(spec.M)
	z["x-z"], z["x-a"], z["x-m"], z["x-b"] = "z", "a", "m", "b"
	ss := comps["securitySchemes"].(spec.M)
	ss["oauth"] = spec.M{"type": "oauth2", "flows": spec.M{"implicit": spec.M{"authorizationUrl": "https://x/y", "scopes": spec.M{"zeta": "z", "alpha": "a", "mid": "m", "beta": "b"}}}}
	paths := d["paths"].(spec.M)
	alpha := paths["/alpha"].(spec.M)
	post := alpha["post"].(spec.M)
	post["requestBody"] = spec.M{"content": spec.M{"application/json": spec.M{"schema": spec.M{"$ref": "#/components/schemas/Account"}}, "application/xml": spec.M{"schema": spec.M{"type": "string"}},
		"text/plain": spec.M{"schema": spec.M{"type": "string"}}, "application/octet-stream": spec.M{"schema": spec.M{"type": "string", "format": "binary"}}}}
	return spec.MarshalDoc(d)
}

func C12(run *report.Run) {
	env := NewEnv(false)
	defer env.Close()
	// corpus: map-fat specs + healthy level-1 cells of different families
	var specs []c12spec
	for v := 0; v < 2; v++ {
		specs = append(specs, c12spec{ID: fmt.Sprintf("mapfat%d", v), Spec: mapFat(v), Client: true, DNE: true, Cors: true})
	}
	specs = append(specs, c12spec{ID: "mapfat0-flag", Spec: mapFat(0), Client: false, DNE: false, BasePath: "/flag"})
	// a small document whose schemas carry several extension keys: goag's own next to the foreign
	// look-alikes a spec shared with other generators has
	specs = append(specs, c12spec{ID: "extfat", Client: true, DNE: true, Spec: []byte(`{"openapi":"3.0.3","info":{"title":"t","version":"1","x-b":1,"x-a":2},
 "paths":{"/p":{"x-z":1,"x-y":2,"get":{"x-m":1,"x-k":2,"parameters":[{"name":"q","in":"query","x-b":1,"x-a":2,"schema":{"type":"string","x-goag-go-type":"pkg.Q","x-go-type":"other.Q","x-order":3}}],
   "responses":{"200":{"description":"r","x-b":1,"x-a":2,"content":{"application/json":{"schema":{"$ref":"#/components/schemas/Holder"}}}},"default":{"description":"d"}}}}},
 "components":{"schemas":{
   "Custom":{"type":"string","x-goag-go-type":"pkg.Custom","x-go-type":"other.Custom","x-go-name":"CustomName","x-order":1,"x-nullable":false,"x-goag-go-time-format":"2006-01-02","x-go-time-format":"rfc3339"},
   "Holder":{"type":"object","x-b":1,"x-a":2,"properties":{"custom":{"$ref":"#/components/schemas/Custom"},"t":{"type":"string","format":"date-time","x-goag-go-time-format":"2006-01-02","x-go-time-format":"rfc822","x-a":1}}}}}}`)})
	// many operations that each register inline nested object types (the order in which hoisted types are
	// declared must not depend on anything but the document)
	{
		base, _, _ := cells.Base()
		base.Paths = nil
		nested := func(i int) *spec.Schema {
			return spec.Obj(spec.P(fmt.Sprintf("outer%d", i), spec.Obj(spec.P("inner", spec.Obj(spec.P("leaf", spec.T("string")))), spec.P("list", spec.Arr(spec.Obj(spec.P("k", spec.T("string"))))))))
		}
		for i := 0; i < 12; i++ {
			base.Paths = append(base.Paths, &spec.PathItem{Template: fmt.Sprintf("/r%02d", i), Ops: []*spec.Op{
				{Method: "POST", Body: &spec.Body{Schema: nested(i), Required: true}, Responses: []*spec.Response{{Status: "200", Desc: "r", Schema: nested(i + 100)}, {Status: "default", Desc: "d"}}},
				{Method: "PUT", Body: &spec.Body{Schema: nested(i + 200), Required: true}, Responses: []*spec.Response{{Status: "default", Desc: "d"}}}}})
		}
		specs = append(specs, c12spec{ID: "inlinefat", Spec: base.YAML(), Client: true, DNE: true})
	}
	pick := map[string]int{}
	for _, c := range C01Cells() {
		fam := c.Attrs["fam"]
		want := map[string]int{"file": 2, "schema": 3, "param": 2, "resphdr": 1, "security2": 2, "status": 1}[fam]
		if run.Tier == "thorough" {
			want *= 3
		}
		key := fam + c.Attrs["pos"] + c.Attrs["shape"]
		if pick[fam] >= want || pick[key] > 0 {
			continue
		}
		if fam == "schema" && (c.Attrs["null"] == "1" || c.Attrs["kind"] != "oneOf+disc" && c.Attrs["kind"] != "object" && c.Attrs["kind"] != "allOf[ref,ref]") {
			continue
		}
		if fam == "security2" && c.Attrs["mode"] != "and" {
			continue
		}
		pick[fam]++
		pick[key]++
		specs = append(specs, c12spec{ID: "cell:" + c.ID, Spec: c.Spec.YAML(), Client: true, DNE: true, Cors: true})
	}
	for n, bs := range fixtureSpecs() {
		if n == "tests/router" || n == "tests/json" || n == "tests/schema_one_of" || n == "examples/petstore" || (run.Tier == "thorough" && strings.HasPrefix(n, "tests/s")) {
			specs = append(specs, c12spec{ID: "fixture:" + n, Spec: bs, Client: true, DNE: true})
		}
	}
	sort.Slice(specs, func(i, j int) bool { return specs[i].ID < specs[j].ID })
	// instrument the CURRENT sources and build the explorer with the overlay
	ovDir := filepath.Join(env.Scratch, "overlay")
	os.MkdirAll(ovDir, 0o755)
	overlay, sites, err := maporder.Instrument(ovDir)
	if err != nil {
		internal("instrument: %v", err)
	}
	ovFile := filepath.Join(env.Scratch, "overlay.json")
	if err := maporder.WriteOverlay(ovFile, overlay); err != nil {
		internal("%v", err)
	}
	bin := filepath.Join(env.Scratch, "maporder.bin")
	cmd := exec.Command("go", "build", "-tags", "verif", "-overlay", ovFile, "-o", bin, "./cmd/maporder")
	cmd.Dir = report.VerifDir
	// the module index caches the import lists of module-cache packages and would hide the import that
	// the overlay adds to kin-openapi's files
	cmd.Env = append(os.Environ(), "GODEBUG=goindex=0")
	if out, err := cmd.CombinedOutput(); err != nil {
		internal("build instrumented explorer: %v\n%s", err, out)
	}
	shards := 16
	type outT struct {
		Runs            int64                        `json:"runs"`
		Points          int64                        `json:"points"`
		Sites           map[string]int64             `json:"sites"`
		Violations      []json.RawMessage            `json:"violations"`
		Base            map[string]map[string]string `json:"base"`
		BaseOutcome     map[string]string            `json:"baseOutcome"`
		MaxKeys         int                          `json:"maxKeys"`
		Reduced         int64                        `json:"reduced"`
		Bound2Runs      int64                        `json:"bound2Runs"`
		Bound2UnitsDone int64                        `json:"bound2UnitsDone"`
		Bound2Units     int64                        `json:"bound2Units"`
		Bound2Capped    bool                         `json:"bound2Capped"`
	}
	outs := make([]outT, shards)
	var wg sync.WaitGroup
	var firstErr error
	var mu sync.Mutex
	for k := 0; k < shards; k++ {
		wg.Add(1)
		go func(k int) {
			defer wg.Done()
			sc := filepath.Join(env.Scratch, fmt.Sprintf("shard%d", k))
			os.MkdirAll(sc, 0o755)
			job := map[string]any{"specs": specs, "bound2": run.Tier == "thorough", "bound2Seconds": 1200, "shard": k, "shards": shards, "scratch": sc}
			jf := filepath.Join(sc, "job.json")
			bs, _ := json.Marshal(job)
			os.WriteFile(jf, bs, 0o644)
			c := exec.Command(bin, jf)
			c.Env = append(os.Environ(), "GOMAXPROCS=2", "TEMPLATE_DEBUG=")
			var stderr bytes.Buffer
			c.Stderr = &stderr
			o, err := c.Output()
			if err != nil {
				mu.Lock()
				firstErr = fmt.Errorf("explorer shard %d: %v: %s", k, err, trunc(stderr.String(), 2000))
				mu.Unlock()
				return
			}
			if err := json.Unmarshal(o, &outs[k]); err != nil {
				mu.Lock()
				firstErr = err
				mu.Unlock()
			}
		}(k)
	}
	wg.Wait()
	if firstErr != nil {
		// the explorer runs the generator in-process: a panic or fatal error inside goag's own packages that
		// kills it is a finding (the generator crashed under some schedule / on some run), not a harness fault
		msg := firstErr.Error()
		if (strings.Contains(msg, "panic:") || strings.Contains(msg, "fatal error:")) && (strings.Contains(msg, "github.com/vkd/goag/generator.") || strings.Contains(msg, "github.com/vkd/goag/specification.") || strings.Contains(msg, "github.com/vkd/goag.")) {
			run.Violate(&report.Violation{Attrs: map[string]string{"class": "generator-crashed", "frame": panicFrame(msg)}, State: "explorer", Observed: trunc(msg, 1500),
				Expected: "the generator runs to completion under every schedule", Detail: map[string]any{"stderr": trunc(msg, 6000)}})
			run.Cap("an explorer shard died inside the generator; its part of the schedule space was not explored")
			run.Cov["states"], run.Cov["transitions"], run.Cov["traces_validated_against_impl"] = 0, 0, 0
			run.Cov["rule"] = "the exploration was cut short by a crash of the generator"
			return
		}
		internal("%v", firstErr)
	}
	var runs int64
	siteHits := map[string]int64{}
	seenV := map[string]bool{}
	maxKeys := 0
	var reduced int64
	var b2runs, b2done, b2units int64
	b2capped := false
	for k, o := range outs {
		runs += o.Runs
		b2runs += o.Bound2Runs
		b2done += o.Bound2UnitsDone
		b2units += o.Bound2Units
		b2capped = b2capped || o.Bound2Capped
		if k == 0 {
			for s, n := range o.Sites {
				siteHits[s] = n
			}
			reduced = o.Reduced
		}
		if o.MaxKeys > maxKeys {
			maxKeys = o.MaxKeys
		}
		for _, raw := range o.Violations {
			var v struct {
				Spec, Class, Site, Site2 string
				Choices                  []int
				Diff                     []string
			}
			json.Unmarshal(raw, &v)
			key := v.Spec + v.Class + v.Site + v.Site2
			if seenV[key] {
				continue
			}
			seenV[key] = true
			site := v.Site
			if i := strings.Index(site, "#"); i > 0 {
				site = site[:i]
			}
			run.Violate(&report.Violation{Attrs: map[string]string{"class": v.Class, "site": site, "site2": v.Site2}, State: v.Spec, Input: fmt.Sprintf("schedule %v", v.Choices),
				Observed: "output differs from the all-sorted schedule in: " + strings.Join(v.Diff, ", "), Expected: "identical outcome and bytes for every iteration order", Detail: map[string]any{"violation": json.RawMessage(raw)}})
		}
	}
	// bind to the real binary: the all-sorted instrumented output equals the uninstrumented CLI's, and
	// the uninstrumented CLI run repeatedly in separate processes is stable (supplementary sampling)
	c12CLI(run, env, specs, outs[0].Base, outs[0].BaseOutcome)
	var points int64 = outs[0].Points
	run.Cov["states"] = runs
	run.Cov["transitions"] = points
	run.Cov["traces_validated_against_impl"] = runs
	run.Cov["specs"] = len(specs)
	run.Cov["instrumented_sites"] = len(sites)
	run.Cov["sites_reached"] = len(siteHits)
	run.Cov["site_hits"] = siteHits
	run.Cov["max_keys_at_a_point"] = maxKeys
	run.Cov["points_with_reduced_permutation_set"] = reduced
	if run.Tier == "thorough" {
		run.Cov["bound2_pair_runs"] = b2runs
		run.Cov["bound2_first_deviations_completed"] = b2done
		run.Cov["bound2_first_deviations_total"] = b2units
		if b2capped {
			run.Cap(fmt.Sprintf("bound-2 pair pass stopped at its 1200 s budget per shard: %d of %d first deviations (goag point × {swap, reversal}) had every later goag point deviated too; bound 1 is complete", b2done, b2units))
		}
	}
	var unreached []string
	for _, s := range sites {
		hit := false
		for h := range siteHits {
			if strings.HasPrefix(h, s.ID) {
				hit = true
			}
		}
		if !hit && !strings.Contains(s.Pkg, "kin-openapi") {
			unreached = append(unreached, s.ID)
		}
	}
	run.Cov["goag_sites_not_reached"] = unreached
	run.Cov["rule"] = "state = one complete generator run under one schedule of map iteration orders; a schedule point = one dynamic range over a map (or maps.Keys call) with >= 2 keys in goag or kin-openapi openapi3/jsoninfo, rewritten from the current sources and substituted by go build -overlay; explored: every permutation (n! for n <= 5, else transpositions+reversal+rotations) at every point with all other points sorted (bound 1), in thorough also pairs of points inside goag's packages (bound 2: the swap and the reversal order at a first point × the same two orders at every later point, within a time budget that the evidence reports); oracle = outcome and sha256 of every written file equal the all-sorted run"
	run.Assumptions = []string{"x/tools/imports, text/template, yaml and encoding/json are not instrumented (they sort or are re-sorted by goag); the repeated uninstrumented CLI runs are the only check on them", "TEMPLATE_DEBUG is pinned empty"}
	_ = cells.Base
	_ = genrun.Success
}

func c12CLI(run *report.Run, env *Env, specs []c12spec, base map[string]map[string]string, baseOutcome map[string]string) {
	bin := filepath.Join(env.Scratch, "goag-cli")
	cmd := exec.Command("go", "build", "-o", bin, "github.com/vkd/goag/cmd/goag")
	cmd.Dir = report.VerifDir
	if out, err := cmd.CombinedOutput(); err != nil {
		internal("build cli: %v: %s", err, out)
	}
	reps := 4
	if run.Tier == "thorough" {
		reps = 8
	}
	var n, dirty int64
	for i, s := range specs {
		if baseOutcome[s.ID] != genrun.Success {
			continue
		}
		var first genrun.Tree
		for r := 0; r < reps; r++ {
			dir := filepath.Join(env.Scratch, "cli", fmt.Sprintf("%d-%d", i, r))
			os.MkdirAll(dir, 0o755)
			sf := filepath.Join(dir, "openapi.yaml")
			os.WriteFile(sf, s.Spec, 0o644)
			cfg := filepath.Join(dir, "cfg.yaml")
			if s.Cors {
				os.WriteFile(cfg, []byte("cors:\n  enable: true\n"), 0o644)
			}
			args := []string{"-file", sf, "-out", filepath.Join(dir, "out"), "-package", "gen", "-config", cfg, fmt.Sprintf("-client=%v", s.Client), fmt.Sprintf("-donotedit=%v", s.DNE), "-spec-handler-name", "openapi.yaml"}
			if s.BasePath != "" {
				args = append(args, "-basepath", s.BasePath)
			}
			c := exec.Command(bin, args...)
			c.Env = append(os.Environ(), "TEMPLATE_DEBUG=")
			if out, err := c.CombinedOutput(); err != nil {
				run.Violate(&report.Violation{Attrs: map[string]string{"class": "cli-fails-where-library-succeeds"}, State: s.ID, Observed: trunc(string(out), 300)})
				break
			}
			t := genrun.ReadTree(filepath.Join(dir, "out"), nil)
			n++
			if r == 0 {
				first = t
				// instrumentation did not change behaviour: all-sorted == real binary
				for f, h := range base[s.ID] {
					if t[f] != h {
						run.Violate(&report.Violation{Attrs: map[string]string{"class": "sorted-schedule-differs-from-cli", "file": f}, State: s.ID,
							Observed: "file " + f + " of the all-sorted instrumented run differs from the uninstrumented CLI's", Expected: "byte-identical"})
					}
				}
			} else if treeKey(t) != treeKey(first) {
				run.Violate(&report.Violation{Attrs: map[string]string{"class": "cli-runs-differ"}, State: s.ID, Observed: fmt.Sprintf("run %d of the uninstrumented CLI wrote different bytes than run 0", r), Expected: "identical"})
			}
			os.RemoveAll(dir)
		}
		// the output is a function of spec, config and options only - not of what an earlier run left in the
		// output directory: generate into a directory that holds the output of another document, and of
		// the same document in another physical form (re-indented: only white space differs)
		if first == nil {
			continue
		}
		var earlier [][]byte
		if i > 0 {
			earlier = append(earlier, specs[i-1].Spec)
		}
		var re bytes.Buffer
		if json.Indent(&re, s.Spec, "", "    ") == nil && re.String() != string(s.Spec) {
			earlier = append(earlier, re.Bytes())
		}
		for k, prev := range earlier {
			dir := filepath.Join(env.Scratch, "cli", fmt.Sprintf("%d-dirty%d", i, k))
			os.MkdirAll(dir, 0o755)
			sf := filepath.Join(dir, "openapi.yaml")
			cfg := filepath.Join(dir, "cfg.yaml")
			if s.Cors {
				os.WriteFile(cfg, []byte("cors:\n  enable: true\n"), 0o644)
			}
			args := []string{"-file", sf, "-out", filepath.Join(dir, "out"), "-package", "gen", "-config", cfg, fmt.Sprintf("-client=%v", s.Client), fmt.Sprintf("-donotedit=%v", s.DNE), "-spec-handler-name", "openapi.yaml"}
			if s.BasePath != "" {
				args = append(args, "-basepath", s.BasePath)
			}
			ok := true
			for _, content := range [][]byte{prev, s.Spec} {
				os.WriteFile(sf, content, 0o644)
				c := exec.Command(bin, args...)
				c.Env = append(os.Environ(), "TEMPLATE_DEBUG=")
				if _, err := c.CombinedOutput(); err != nil {
					ok = false // the earlier document does not generate under these options: nothing to compare
					break
				}
			}
			if ok {
				n++
				dirty++
				if t := genrun.ReadTree(filepath.Join(dir, "out"), nil); treeKey(t) != treeKey(first) {
					run.Violate(&report.Violation{Attrs: map[string]string{"class": "output-depends-on-directory-content", "earlier": []string{"other-document", "same-document-reindented"}[min(k+boolInt(i == 0), 1)]}, State: s.ID,
						Observed: "generating into a directory that held the output of an earlier run wrote different bytes than generating into an empty one", Expected: "identical"})
				}
			}
			os.RemoveAll(dir)
		}
	}
	run.Cov["cli_runs"] = n
	run.Cov["cli_runs_into_used_directories"] = dirty
}

func boolInt(b bool) int {
	if b {
		return 1
	}
	return 0
}
