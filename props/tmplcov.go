package props

import (
	"encoding/json"

	"verif/genrun"
)

// templateCoverage merges the per-worker template-arm counters (hook in /repo, build tag verif).
func templateCoverage(p *genrun.Pool) map[string]any {
	total := map[string]uint64{}
	for _, raw := range p.Stats {
		var m struct {
			Arms map[string]uint64 `json:"arms"`
		}
		if json.Unmarshal(raw, &m) == nil {
			for k, v := range m.Arms {
				total[k] += v
			}
		}
	}
	reached := 0
	var unreached []string
	for k, v := range total {
		if v > 0 {
			reached++
		} else if len(unreached) < 400 {
			unreached = append(unreached, k)
		}
	}
	return map[string]any{"arms": len(total), "reached": reached, "unreached": unreached}
}
