package props

import (
	"fmt"
	"sort"
	"strings"

	"verif/cells"
	"verif/genrun"
	"verif/report"
)

func init() { Registry["C01"] = C01 }

// C01Cells is the level-1 corpus shared by the static properties.
func C01Cells() []cells.Cell {
	var cs []cells.Cell
	cs = append(cs, cells.FileLevelCells()...)
	cs = append(cs, cells.SchemaCells()...)
	cs = append(cs, cells.ParamCells()...)
	cs = append(cs, cells.HeaderCells()...)
	cs = append(cs, cells.NameCells()...)
	cs = append(cs, cells.TextCells()...)
	cs = append(cs, cells.StatusCells()...)
	cs = append(cs, cells.SecurityCells()...)
	return cs
}

type c01state struct {
	cell  cells.Cell
	flags cells.Flags
}

// expectedFiles is the file set the flags call for (the model's statement, not goag's).
func expectedFiles(files []string, client bool) (missing, extra []string) {
	have := map[string]bool{}
	for _, f := range files {
		have[f] = true
	}
	want := map[string]bool{"handler.go": true, "router.go": true, "spec_file.go": true}
	if client {
		want["client.go"] = true
	}
	for f := range want {
		if !have[f] {
			missing = append(missing, f)
		}
	}
	for f := range have {
		if !want[f] && f != "components.go" {
			extra = append(extra, f)
		}
	}
	sort.Strings(missing)
	sort.Strings(extra)
	return
}

// judgeStatic applies C01's oracle to one result and returns violations' attrs (nil = fine).
func judgeStatic(r *genrun.Result, client bool) []map[string]string {
	if r.Outcome != genrun.Success {
		return nil
	}
	var out []map[string]string
	seen := map[string]bool{}
	add := func(oracle, file, diag string) {
		k := oracle + "|" + file + "|" + diag
		if !seen[k] {
			seen[k] = true
			out = append(out, map[string]string{"oracle": oracle, "file": file, "diag": diag, "diagclass": DiagClass(diag)})
		}
	}
	for _, e := range r.SyntaxErr {
		f, m := NormDiag(e)
		add("syntax", f, m)
	}
	for _, f := range r.Unstable {
		add("gofmt", f, "gofmt(f) != f")
	}
	if len(r.SyntaxErr) == 0 {
		for i, e := range r.TypeErr {
			if i >= 1 {
				break // first diagnostic identifies the class; the rest are usually consequences
			}
			f, m := NormDiag(e)
			add("types", f, m)
		}
	}
	missing, extra := expectedFiles(r.Files, client)
	for _, f := range missing {
		add("fileset", f, "missing")
	}
	for _, f := range extra {
		add("fileset", f, "unexpected")
	}
	return out
}

func C01(run *report.Run) {
	env := NewEnv(true)
	defer env.Close()
	cs := C01Cells()
	fileLevel := map[string]bool{}
	for _, c := range cells.FileLevelCells() {
		fileLevel[c.ID] = true
	}
	var states []c01state
	for _, c := range cs {
		if fileLevel[c.ID] {
			for _, f := range cells.AllFlags() {
				states = append(states, c01state{c, f})
			}
			continue
		}
		states = append(states, c01state{c, cells.Flags{Client: true, DoNotEdit: true, Cors: true, Base: "none"}})
		states = append(states, c01state{c, cells.Flags{Client: false, DoNotEdit: false, Cors: false, Base: "v1"}})
		if run.Tier == "thorough" {
			states = append(states, c01state{c, cells.Flags{Client: true, DoNotEdit: false, Cors: false, Base: "flag"}})
			states = append(states, c01state{c, cells.Flags{Client: false, DoNotEdit: true, Cors: true, Base: "vars"}})
		}
	}
	jobs := make([]*genrun.Job, len(states))
	for i, st := range states {
		jobs[i] = JobFor(env, fmt.Sprintf("s%06d", i), st.cell, st.flags)
	}
	outcomes := map[string]int{}
	perFam := map[string]map[string]int{}
	var files, judged int64
	healthyCells := map[string]bool{}
	env.Pool.RunAll(jobs, func(j *genrun.Job, r *genrun.Result) {
		var i int
		fmt.Sscanf(j.ID, "s%d", &i)
		st := states[i]
		outcomes[r.Outcome]++
		fam := st.cell.Attrs["fam"]
		if perFam[fam] == nil {
			perFam[fam] = map[string]int{}
		}
		switch r.Outcome {
		case "internal":
			internal("job %s: %s", st.cell.ID, r.Msg)
		case genrun.Success:
			judged++
			files += int64(len(r.Files))
			vs := judgeStatic(r, st.flags.Client)
			if len(vs) == 0 {
				perFam[fam]["healthy"]++
				healthyCells[st.cell.ID] = true
			} else {
				perFam[fam]["violating"]++
			}
			for _, va := range vs {
				run.Violate(&report.Violation{
					Attrs:    mergeAttrs(st.cell.Attrs, va, map[string]string{"client": fmt.Sprint(st.flags.Client)}),
					State:    st.cell.ID + " × " + st.flags.String(),
					Observed: "generator reported success; " + va["oracle"] + " oracle failed in " + va["file"] + ": " + va["diag"],
					Expected: "every written file parses, is gofmt-stable, and the package type-checks against the standard library; file set = what the flags call for",
					Detail:   map[string]any{"job": j, "typeErrors": r.TypeErr, "syntaxErrors": r.SyntaxErr},
				})
			}
		case genrun.GenError:
			perFam[fam]["rejected"]++
		case genrun.LoadRejected:
			perFam[fam]["load-rejected"]++
		default: // panic / fatal: C15's business, recorded here
			perFam[fam][r.Outcome]++
		}
		if i%997 == 0 {
			run.Sample(map[string]any{"state": st.cell.ID, "flags": st.flags.String(), "outcome": r.Outcome, "msg": trunc(r.Msg, 120), "files": r.Files})
		}
	})
	run.Cov["states"] = len(states)
	run.Cov["transitions"] = files
	run.Cov["traces_validated_against_impl"] = judged
	run.Cov["generator_outcomes"] = outcomes
	run.Cov["per_family"] = perFam
	run.Cov["cells"] = len(cs)
	run.Cov["template_coverage"] = templateCoverage(env.Pool)
	run.Cov["rule"] = "state = (level-1 cell of the DESIGN §3 matrix, flag combination); transition = one written file judged by parser+gofmt+go/types; all cells enumerated, none sampled"
	run.Assumptions = []string{"go/types with gc export data of the installed standard library stands for 'compiles'", "level 1 only (single cells × flags); pair level not yet enumerated for C01"}
}

func trunc(s string, n int) string {
	if len(s) > n {
		return s[:n] + "…"
	}
	return strings.TrimSpace(s)
}
