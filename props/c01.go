package props

import (
	"fmt"
	"sort"
	"strings"

	"verif/cells"
	"verif/genrun"
	"verif/report"
)

func init() { Registry["C01"] = C01 }

// C01Cells is the level-1 corpus shared by the static properties.
func C01Cells() []cells.Cell {
	var cs []cells.Cell
	cs = append(cs, cells.FileLevelCells()...)
	cs = append(cs, cells.SchemaCells()...)
	cs = append(cs, cells.ParamCells()...)
	cs = append(cs, cells.HeaderCells()...)
	cs = append(cs, cells.HeaderNameCells()...)
	cs = append(cs, cells.NameCells()...)
	cs = append(cs, cells.TextCells()...)
	cs = append(cs, cells.StatusCells()...)
	cs = append(cs, cells.SecurityCells()...)
	cs = append(cs, cells.RespSetCells()...)
	cs = append(cs, cells.RefOrderCells()...)
	cs = append(cs, cells.OneOfOrderCells()...)
	// responses shared between operations and statuses, through aliases, headers shared between responses
	for _, c := range respCells("quick") {
		if c.Attrs["fam"] == "respshare" {
			cs = append(cs, c)
		}
	}
	return cs
}

type c01state struct {
	cell  cells.Cell
	flags cells.Flags
}

// expectedFiles is the file set the flags call for (the model's statement, not goag's).
func expectedFiles(files []string, client bool) (missing, extra []string) {
	have := map[string]bool{}
	for _, f := range files {
		have[f] = true
	}
	want := map[string]bool{"handler.go": true, "router.go": true, "spec_file.go": true}
	if client {
		want["client.go"] = true
	}
	for f := range want {
		if !have[f] {
			missing = append(missing, f)
		}
	}
	for f := range have {
		if !want[f] && f != "components.go" {
			extra = append(extra, f)
		}
	}
	sort.Strings(missing)
	sort.Strings(extra)
	return
}

// judgeStatic applies C01's oracle to one result and returns violations' attrs (nil = fine).
func judgeStatic(r *genrun.Result, client bool) []map[string]string {
	if r.Outcome != genrun.Success {
		return nil
	}
	var out []map[string]string
	seen := map[string]bool{}
	add := func(oracle, file, diag string) {
		k := oracle + "|" + file + "|" + diag
		if !seen[k] {
			seen[k] = true
			out = append(out, map[string]string{"oracle": oracle, "file": file, "diag": diag, "diagclass": DiagClass(diag)})
		}
	}
	for _, e := range r.SyntaxErr {
		f, m := NormDiag(e)
		add("syntax", f, m)
	}
	for _, f := range r.Unstable {
		add("gofmt", f, "gofmt(f) != f")
	}
	if len(r.SyntaxErr) == 0 {
		for i, e := range r.TypeErr {
			if i >= 1 {
				break // first diagnostic identifies the class; the rest are usually consequences
			}
			f, m := NormDiag(e)
			add("types", f, m)
		}
	}
	missing, extra := expectedFiles(r.Files, client)
	for _, f := range missing {
		add("fileset", f, "missing")
	}
	for _, f := range extra {
		add("fileset", f, "unexpected")
	}
	return out
}

func C01(run *report.Run) {
	env := NewEnv(true)
	defer env.Close()
	cs := C01Cells()
	fileLevel := map[string]bool{}
	for _, c := range cells.FileLevelCells() {
		fileLevel[c.ID] = true
	}
	var states []c01state
	for _, c := range cs {
		if fileLevel[c.ID] {
			for _, f := range cells.AllFlags() {
				states = append(states, c01state{c, f})
			}
			continue
		}
		states = append(states, c01state{c, cells.Flags{Client: true, DoNotEdit: true, Cors: true, Base: "none"}})
		states = append(states, c01state{c, cells.Flags{Client: false, DoNotEdit: false, Cors: false, Base: "v1"}})
		if run.Tier == "thorough" {
			states = append(states, c01state{c, cells.Flags{Client: true, DoNotEdit: false, Cors: false, Base: "flag"}})
			states = append(states, c01state{c, cells.Flags{Client: false, DoNotEdit: true, Cors: true, Base: "vars"}})
		}
	}
	jobs := make([]*genrun.Job, len(states))
	for i, st := range states {
		jobs[i] = JobFor(env, fmt.Sprintf("s%06d", i), st.cell, st.flags)
	}
	outcomes := map[string]int{}
	perFam := map[string]map[string]int{}
	var files, judged int64
	healthyCells := map[string]bool{}
	unhealthyCells := map[string]bool{}
	env.Pool.RunAll(jobs, func(j *genrun.Job, r *genrun.Result) {
		var i int
		fmt.Sscanf(j.ID, "s%d", &i)
		st := states[i]
		outcomes[r.Outcome]++
		fam := st.cell.Attrs["fam"]
		if perFam[fam] == nil {
			perFam[fam] = map[string]int{}
		}
		switch r.Outcome {
		case "internal":
			internal("job %s: %s", st.cell.ID, r.Msg)
		case genrun.Success:
			judged++
			files += int64(len(r.Files))
			vs := judgeStatic(r, st.flags.Client)
			if len(vs) == 0 {
				perFam[fam]["healthy"]++
				healthyCells[st.cell.ID] = true
			} else {
				perFam[fam]["violating"]++
				unhealthyCells[st.cell.ID] = true
			}
			for _, va := range vs {
				run.Violate(&report.Violation{
					Attrs:    mergeAttrs(st.cell.Attrs, va, map[string]string{"client": fmt.Sprint(st.flags.Client)}),
					State:    st.cell.ID + " × " + st.flags.String(),
					Observed: "generator reported success; " + va["oracle"] + " oracle failed in " + va["file"] + ": " + va["diag"],
					Expected: "every written file parses, is gofmt-stable, and the package type-checks against the standard library; file set = what the flags call for",
					Detail:   map[string]any{"job": j, "typeErrors": r.TypeErr, "syntaxErrors": r.SyntaxErr},
				})
			}
		case genrun.GenError:
			perFam[fam]["rejected"]++
			unhealthyCells[st.cell.ID] = true
		case genrun.LoadRejected:
			perFam[fam]["load-rejected"]++
		default: // panic / fatal: C15's business, recorded here
			perFam[fam][r.Outcome]++
			unhealthyCells[st.cell.ID] = true
		}
		if i%997 == 0 {
			run.Sample(map[string]any{"state": st.cell.ID, "flags": st.flags.String(), "outcome": r.Outcome, "msg": trunc(r.Msg, 120), "files": r.Files})
		}
	})
	// ---- level 2: every unordered pair of healthy representative cells merged into one spec ----------
	reps := c01Representatives(cs, healthyCells, unhealthyCells, run.Tier)
	var pairStates []c01state
	for i := range reps {
		for j := i; j < len(reps); j++ {
			pairStates = append(pairStates, c01state{cells.Merge(reps[i], reps[j]), cells.Flags{Client: true, DoNotEdit: true, Cors: true, Base: "none"}})
		}
	}
	pjobs := make([]*genrun.Job, len(pairStates))
	for i, st := range pairStates {
		pjobs[i] = JobFor(env, fmt.Sprintf("q%06d", i), st.cell, st.flags)
	}
	pairOutcomes := map[string]int{}
	env.Pool.RunAll(pjobs, func(j *genrun.Job, r *genrun.Result) {
		var i int
		fmt.Sscanf(j.ID, "q%d", &i)
		st := pairStates[i]
		pairOutcomes[r.Outcome]++
		if r.Outcome == "internal" {
			internal("job %s: %s", st.cell.ID, r.Msg)
		}
		if r.Outcome != genrun.Success {
			// both members generate alone: their composition must too
			run.Violate(&report.Violation{Attrs: map[string]string{"fam": "pair", "oracle": "composition-rejected", "outcome": r.Outcome, "diagclass": DiagClass(stripQuoted(r.Msg))}, State: st.cell.ID,
				Observed: "two cells that generate alone do not generate together: " + r.Outcome + " " + trunc(r.Msg, 200), Detail: map[string]any{"job": j}})
			return
		}
		judged++
		files += int64(len(r.Files))
		for _, va := range judgeStatic(r, true) {
			run.Violate(&report.Violation{Attrs: mergeAttrs(map[string]string{"fam": "pair"}, va), State: st.cell.ID,
				Observed: "generator reported success; " + va["oracle"] + " oracle failed in " + va["file"] + ": " + va["diag"],
				Expected: "two features that each yield a compilable package also do so together", Detail: map[string]any{"job": j, "typeErrors": r.TypeErr}})
		}
	})
	// ---- used output directories: every representative cell generated into a directory that already
	// holds the (larger) output of another document, with other flags -------------------------------
	var regen []c01state
	for k, c := range reps {
		f := cells.Flags{Client: k%2 == 0, DoNotEdit: k%3 != 0, Cors: false, Base: "none"}
		regen = append(regen, c01state{c, f})
	}
	rjobs := make([]*genrun.Job, len(regen))
	for i, st := range regen {
		rjobs[i] = JobFor(env, fmt.Sprintf("r%06d", i), st.cell, st.flags)
		rjobs[i].Pre = &genrun.Job{Spec: mapFat(0), Package: "gen", Client: true, DoNotEdit: true, Cors: true}
	}
	env.Pool.RunAll(rjobs, func(j *genrun.Job, r *genrun.Result) {
		var i int
		fmt.Sscanf(j.ID, "r%d", &i)
		st := regen[i]
		if r.Outcome == "internal" {
			internal("job %s: %s", st.cell.ID, r.Msg)
		}
		if r.Outcome != genrun.Success {
			return // judged at level 1
		}
		judged++
		files += int64(len(r.Files))
		for _, va := range judgeStatic(r, st.flags.Client) {
			run.Violate(&report.Violation{Attrs: mergeAttrs(st.cell.Attrs, va, map[string]string{"dir": "used", "client": fmt.Sprint(st.flags.Client)}), State: st.cell.ID + " × " + st.flags.String() + " into a used directory",
				Observed: "generator reported success; " + va["oracle"] + " oracle failed in " + va["file"] + ": " + va["diag"],
				Expected: "the package compiles whatever an earlier run left in the output directory", Detail: map[string]any{"job": j, "typeErrors": r.TypeErr, "syntaxErrors": r.SyntaxErr}})
		}
	})
	run.Cov["used_directory_runs"] = len(regen)
	run.Cov["level2_representatives"] = len(reps)
	run.Cov["level2_pairs"] = len(pairStates)
	run.Cov["level2_outcomes"] = pairOutcomes
	run.Cov["states"] = len(states) + len(pairStates) + len(regen)
	run.Cov["transitions"] = files
	run.Cov["traces_validated_against_impl"] = judged
	run.Cov["generator_outcomes"] = outcomes
	run.Cov["per_family"] = perFam
	run.Cov["cells"] = len(cs)
	run.Cov["template_coverage"] = templateCoverage(env.Pool)
	run.Cov["rule"] = "state = (level-1 cell of the DESIGN §3 matrix, flag combination); transition = one written file judged by parser+gofmt+go/types; all cells enumerated, none sampled"
	run.Assumptions = []string{"go/types with gc export data of the installed standard library stands for 'compiles'", "level 2 = all unordered pairs (incl. self pairs) of one representative healthy cell per (family, position/location/site, kind) merged into one spec with renamed components and paths; not all pairs of all cells"}
}

func trunc(s string, n int) string {
	if len(s) > n {
		return s[:n] + "…"
	}
	return strings.TrimSpace(s)
}

// c01Representatives picks one healthy cell per (family, position/location/site/shape, kind) — the
// cells from which level 2 is composed (apriori rule: only cells healthy under every flag state).
func c01Representatives(cs []cells.Cell, healthy, unhealthy map[string]bool, tier string) []cells.Cell {
	k2 := map[string]bool{"": true}
	for _, k := range cells.K2Names {
		k2[k] = true
	}
	if tier == "thorough" {
		for _, k := range []string{"boolean", "number", "any", "map<string>", "object+addtrue", "array<object>", "oneOf+disc"} {
			k2[k] = true
		}
	}
	seen := map[string]bool{}
	var out []cells.Cell
	for _, c := range cs {
		a := c.Attrs
		if !healthy[c.ID] || unhealthy[c.ID] || !k2[a["kind"]] {
			continue
		}
		if a["form"] == "alias" || a["decl"] == "schema-alias" || a["null"] == "1" || a["level"] == "override" {
			continue
		}
		if tier == "quick" && (a["fam"] == "name" || a["fam"] == "namepair" || a["fam"] == "text" || a["rform"] == "alias" || a["req"] == "1" || a["status"] == "default" || a["decl"] == "schema-ref") {
			continue
		}
		key := a["fam"] + "/" + a["pos"] + "/" + a["loc"] + "/" + a["site"] + "/" + a["shape"] + "/" + a["kind"] + "/" + a["scheme"] + "/" + a["content"]
		if tier == "thorough" {
			key += "/" + a["form"] + a["decl"] + a["rform"] + a["bform"]
		}
		if seen[key] {
			continue
		}
		seen[key] = true
		out = append(out, c)
	}
	limit := 45
	if tier == "thorough" {
		limit = 110
	}
	if len(out) > limit {
		// keep a spread over the families: every n-th
		step := float64(len(out)) / float64(limit)
		var red []cells.Cell
		for i := 0; i < limit; i++ {
			red = append(red, out[int(float64(i)*step)])
		}
		out = red
	}
	return out
}
