// Package props holds one file per property: the enumerator of its state/input space and the glue
// between implementation observations and reference models.
package props

import (
	"encoding/json"
	"fmt"
	"os"
	"path/filepath"
	"regexp"
	"strings"

	"verif/cells"
	"verif/genrun"
	"verif/report"
)

type InternalError string

func internal(format string, a ...any) { panic(InternalError(fmt.Sprintf(format, a...))) }

var Registry = map[string]func(*report.Run){}

// WorkerStats is what a generator worker reports when the pool shuts it down (template coverage).
var WorkerStats = func() any { return map[string]any{} }

// Env is the per-run environment: scratch root, worker pool.
type Env struct {
	Scratch string
	Pool    *genrun.Pool
	cleanup func()
}

func NewEnv(ram bool) *Env {
	dir, cleanup := report.Scratch(ram)
	e := &Env{Scratch: dir, cleanup: cleanup, Pool: genrun.NewPool()}
	if err := genrun.PrepareExports(dir); err != nil {
		cleanup()
		internal("%v", err)
	}
	return e
}

func (e *Env) Close() { e.cleanup() }

// JobFor builds the generator job for a cell under flags.
func JobFor(e *Env, id string, c cells.Cell, f cells.Flags) *genrun.Job {
	bf := cells.BaseFormByName(f.Base)
	s := c.Spec
	if len(bf.Servers) > 0 {
		s = cells.WithBase(s, bf)
	}
	return &genrun.Job{
		ID: id, Spec: s.YAML(), OutDir: filepath.Join(e.Scratch, "gen", id), Package: "gen",
		Client: f.Client, DoNotEdit: f.DoNotEdit, Cors: f.Cors, BasePath: bf.Flag, Static: true,
	}
}

var (
	rePos   = regexp.MustCompile(`^[^ ]*?([a-z_]+\.go):\d+:\d+: `)
	reDigit = regexp.MustCompile(`\d+`)
)

// NormDiag abstracts positions out of a compiler/type-checker diagnostic.
func NormDiag(d string) (file, msg string) {
	if m := rePos.FindStringSubmatch(d); m != nil {
		file = m[1]
		d = d[len(m[0]):]
	}
	return file, strings.TrimSpace(d)
}

var (
	reMore  = regexp.MustCompile(` \(and \d+ more errors\)`)
	reAt    = regexp.MustCompile(` at [a-z_]+\.go:\d+:\d+`)
	reIdent = regexp.MustCompile(`\b[A-Z][A-Za-z0-9_]*\b`)
	reGen   = regexp.MustCompile(`ID\[[^ ]*\]`)
	reSel   = regexp.MustCompile(`\b[a-zA-Z0-9]+(\.ID)+`)
)

// DiagClass abstracts identifiers, instantiations, selectors and counts out of a diagnostic so that
// one root cause maps to one class across cells.
func DiagClass(msg string) string {
	msg = firstLineOf(msg)
	msg = reMore.ReplaceAllString(msg, "")
	msg = reAt.ReplaceAllString(msg, "")
	msg = reIdent.ReplaceAllString(msg, "ID")
	msg = reGen.ReplaceAllString(msg, "ID[T]")
	msg = reSel.ReplaceAllString(msg, "x.ID")
	msg = reDigit.ReplaceAllString(msg, "N")
	return msg
}

func firstLineOf(s string) string {
	if i := strings.IndexByte(s, '\n'); i >= 0 {
		return s[:i]
	}
	return s
}

func mergeAttrs(ms ...map[string]string) map[string]string {
	out := map[string]string{}
	for _, m := range ms {
		for k, v := range m {
			out[k] = v
		}
	}
	return out
}

func jsonStr(v any) string {
	bs, _ := json.Marshal(v)
	return string(bs)
}

// Replay re-executes the counterexample stored in a replay file outside any search.
func Replay(id, file string) int {
	bs, err := os.ReadFile(file)
	if err != nil {
		fmt.Fprintln(os.Stderr, err)
		return 2
	}
	var v report.Violation
	if err := json.Unmarshal(bs, &v); err != nil {
		fmt.Fprintln(os.Stderr, err)
		return 2
	}
	if fn, ok := Replayers[id]; ok {
		return fn(&v)
	}
	d, _ := json.Marshal(v.Detail)
	var det struct {
		Job     *genrun.Job     `json:"job"`
		Pair    *genrun.Job     `json:"pair"`
		Prop    string          `json:"prop"`
		Payload json.RawMessage `json:"payload"`
	}
	if json.Unmarshal(d, &det) == nil && det.Job != nil && det.Prop != "" {
		// a behavioural counterexample: regenerate, compile, run the driver job alone
		run := report.NewReplayRun(id)
		env := NewEnv(false)
		defer env.Close()
		fmt.Printf("replaying state %s\ninput of the recorded violation: %s\n", v.State, v.Input)
		RunBatch(run, env, []BState{{ID: v.State, Attrs: map[string]string{}, Gen: det.Job, Pair: det.Pair, Prop: det.Prop, Payload: det.Payload}}, 1)
		return run.Finish()
	}
	return replayJob(&v)
}

var Replayers = map[string]func(*report.Violation) int{}

// replayJob: the violation carries a generator job; run it in-process and re-apply the static oracles.
func replayJob(v *report.Violation) int {
	d, _ := json.Marshal(v.Detail)
	var det struct {
		Job *genrun.Job `json:"job"`
	}
	if err := json.Unmarshal(d, &det); err != nil || det.Job == nil {
		fmt.Fprintln(os.Stderr, "replay file carries no generator job")
		return 2
	}
	dir, cleanup := report.Scratch(true)
	defer cleanup()
	if err := genrun.PrepareExports(dir); err != nil {
		fmt.Fprintln(os.Stderr, err)
		return 2
	}
	det.Job.OutDir = filepath.Join(dir, "out")
	det.Job.KeepFiles = false
	r := genrun.Run(det.Job)
	fmt.Printf("spec:\n%s\noutcome: %s %s\nfiles: %v\nsyntax: %v\ngofmt-unstable: %v\ntype errors: %v\n", det.Job.Spec, r.Outcome, r.Msg, r.Files, r.SyntaxErr, r.Unstable, r.TypeErr)
	if r.Outcome == genrun.Success && !r.Healthy() || r.Outcome == genrun.GenPanic {
		fmt.Printf("VIOLATION property=%s replay=%s\n", v.Property, "(this file)")
		return 1
	}
	return 0
}
