package props

import (
	"fmt"
	"sort"
	"strings"

	"verif/cells"
	"verif/drv"
	"verif/genrun"
	"verif/refmodel"
	"verif/report"
	"verif/spec"
)

func init() { Registry["C03"] = C03 }

// ---- template alphabet -------------------------------------------------------------------------

var c03Segs = []string{"a", "b", "{x}", "{y}"}

// templatesUpTo enumerates templates of 1..d segments over {a, b, {x}, {y}} with an optional empty
// last segment, no variable name twice.
func templatesUpTo(d int) []string {
	var out []string
	var rec func(cur []string)
	rec = func(cur []string) {
		if len(cur) > 0 {
			out = append(out, "/"+strings.Join(cur, "/"))
			if len(cur) < d {
				out = append(out, "/"+strings.Join(cur, "/")+"/")
			}
		}
		if len(cur) == d {
			return
		}
		for _, s := range c03Segs {
			dup := false
			for _, c := range cur {
				if c == s && refmodel.IsVar(s) {
					dup = true
				}
			}
			if !dup {
				rec(append(append([]string{}, cur...), s))
			}
		}
	}
	rec(nil)
	out = append(out, "/")
	sort.Slice(out, func(i, j int) bool {
		if n, m := strings.Count(out[i], "/"), strings.Count(out[j], "/"); n != m {
			return n < m
		}
		return out[i] < out[j]
	})
	return out
}

func eraseNames(t string) string {
	segs := refmodel.Segs(t)
	for i, s := range segs {
		if refmodel.IsVar(s) {
			segs[i] = "{}"
		}
	}
	return "/" + strings.Join(segs, "/")
}

var c03Sym = []map[string]string{
	{"a": "a", "b": "b", "{x}": "{x}", "{y}": "{y}"},
	{"a": "b", "b": "a", "{x}": "{x}", "{y}": "{y}"},
	{"a": "a", "b": "b", "{x}": "{y}", "{y}": "{x}"},
	{"a": "b", "b": "a", "{x}": "{y}", "{y}": "{x}"},
}

func applySym(t string, m map[string]string) string {
	segs := refmodel.Segs(t)
	for i, s := range segs {
		if r, ok := m[s]; ok {
			segs[i] = r
		}
	}
	return "/" + strings.Join(segs, "/")
}

// canonSet returns the canonical representative of a template set under a<->b and x<->y.
func canonSet(ts []string) string {
	best := ""
	for _, m := range c03Sym {
		l := make([]string, len(ts))
		for i, t := range ts {
			l[i] = applySym(t, m)
		}
		sort.Strings(l)
		k := strings.Join(l, " ")
		if best == "" || k < best {
			best = k
		}
	}
	return best
}

// templateSets enumerates canonical sets of n pairwise non-equivalent templates of depth <= d.
func templateSets(n, d int, filter func([]string) bool) [][]string {
	all := templatesUpTo(d)
	seen := map[string]bool{}
	var out [][]string
	var rec func(start int, cur []string)
	rec = func(start int, cur []string) {
		if len(cur) == n {
			if filter != nil && !filter(cur) {
				return
			}
			k := canonSet(cur)
			if !seen[k] {
				seen[k] = true
				out = append(out, strings.Split(k, " "))
			}
			return
		}
		for i := start; i < len(all); i++ {
			ok := true
			for _, c := range cur {
				if eraseNames(c) == eraseNames(all[i]) {
					ok = false
				}
			}
			if ok {
				rec(i+1, append(append([]string{}, cur...), all[i]))
			}
		}
	}
	rec(0, nil)
	return out
}

// sharedVarPosition: two templates have variables with different names at the same non-last
// position after an equal prefix shape (where the router must merge them).
func sharedVarPosition(ts []string) bool {
	for i := range ts {
		for j := i + 1; j < len(ts); j++ {
			a, b := refmodel.Segs(ts[i]), refmodel.Segs(ts[j])
			for k := 0; k < len(a)-1 && k < len(b)-1; k++ {
				if refmodel.IsVar(a[k]) && refmodel.IsVar(b[k]) && a[k] != b[k] {
					return true
				}
				if a[k] != b[k] {
					break
				}
			}
		}
	}
	return false
}

// ---- states -------------------------------------------------------------------------------------

// routeSpec builds the spec of a routing state: each template with its methods, variables declared as
// required string path parameters, every operation answering `default`.
func routeSpec(ts []refmodel.Template, varType func(tmpl, name string) *spec.Schema) *spec.Spec {
	s := &spec.Spec{}
	for _, t := range ts {
		pi := &spec.PathItem{Template: t.Path}
		for _, seg := range refmodel.Segs(t.Path) {
			if refmodel.IsVar(seg) {
				name := seg[1 : len(seg)-1]
				sc := spec.T("string")
				if varType != nil {
					sc = varType(t.Path, name)
				}
				pi.Params = append(pi.Params, &spec.Param{Name: name, In: "path", Required: true, Schema: sc})
			}
		}
		for _, m := range t.Methods {
			op := &spec.Op{Method: m, Responses: []*spec.Response{{Status: "default", Desc: "d"}}}
			// templates with characters that cannot appear in a Go identifier get an operationId (names derived
			// from such paths are C01's business)
			if strings.ContainsAny(t.Path, "+% ") {
				op.ID = fmt.Sprintf("op%d%s", len(s.Paths), strings.ToLower(m))
			}
			pi.Ops = append(pi.Ops, op)
		}
		s.Paths = append(s.Paths, pi)
	}
	return s
}

func prefixesFor(want string) []string {
	ps := []string{want, "/zz"}
	if want != "" {
		ps = append(ps, "", want[:len(want)-1], want+"x", strings.TrimPrefix(want, "/"), want+"/")
	}
	seen := map[string]bool{}
	var out []string
	for _, p := range ps {
		if !seen[p] {
			seen[p] = true
			out = append(out, p)
		}
	}
	return out
}

type routeState struct {
	ts   []refmodel.Template
	base cells.BaseForm
	segs []string // request segment alphabet (nil: a, b, c, empty)
}

func (r routeState) id() string {
	var l []string
	for _, t := range r.ts {
		l = append(l, t.Path+"["+strings.Join(t.Methods, ",")+"]")
	}
	return "T={" + strings.Join(l, " ") + "};base=" + r.base.Name
}

func mkTemplates(paths []string, methods ...[]string) []refmodel.Template {
	var ts []refmodel.Template
	for i, p := range paths {
		m := methods[i%len(methods)]
		ts = append(ts, refmodel.Template{Path: p, Methods: m})
	}
	return ts
}

func c03States(tier string) []routeState {
	var out []routeState
	G, P, GP := []string{"GET"}, []string{"POST"}, []string{"GET", "POST"}
	none := cells.BaseFormByName("none")
	d1 := 3
	if tier == "thorough" {
		d1 = 4
	}
	// |T| = 1: every base form with GET; base none/v1 with the other method sets
	for _, set := range templateSets(1, d1, nil) {
		for _, b := range cells.BaseForms {
			out = append(out, routeState{ts: mkTemplates(set, G), base: b})
		}
		out = append(out, routeState{ts: mkTemplates(set, P), base: none}, routeState{ts: mkTemplates(set, GP), base: none})
	}
	// |T| = 2
	d2 := 2
	if tier == "thorough" {
		d2 = 3
	}
	for _, set := range templateSets(2, d2, nil) {
		out = append(out, routeState{ts: mkTemplates(set, G, G), base: none}, routeState{ts: mkTemplates(set, G, P), base: none}, routeState{ts: mkTemplates(set, GP, G), base: cells.BaseFormByName("v1")})
		if tier == "thorough" && len(refmodel.Segs(set[0]))+len(refmodel.Segs(set[1])) <= 4 {
			for _, b := range cells.BaseForms {
				out = append(out, routeState{ts: mkTemplates(set, G, GP), base: b})
			}
		}
	}
	// a path item WITHOUT operations next to one with (before and after it in sorted order)
	for _, set := range templateSets(2, d2, nil) {
		out = append(out, routeState{ts: mkTemplates(set, []string{}, G), base: none}, routeState{ts: mkTemplates(set, GP, []string{}), base: none})
	}
	// literal segments with characters that URL escaping treats specially; the request alphabet holds the
	// literal, its query-unescaped and its escaped spellings
	special := []string{"c++", "c  ", "c%2B%2B", "a b", "a%20b", "a+b", "x", ""}
	for _, set := range [][]string{{"/c++"}, {"/c++/{x}", "/c++"}, {"/c++", "/{x}"}, {"/a+b/{x}", "/a b/{x}"}, {"/a%20b", "/{x}"}, {"/{x}/c++", "/{x}/{y}"}} {
		ms := [][]string{G, GP}
		out = append(out, routeState{ts: mkTemplates(set, ms...), base: none, segs: special}, routeState{ts: mkTemplates(set, ms...), base: cells.BaseFormByName("v1"), segs: special})
	}
	if tier == "quick" {
		// the variable-name interaction pairs of depth 3
		for _, set := range templateSets(2, 3, sharedVarPosition) {
			out = append(out, routeState{ts: mkTemplates(set, G, G), base: none})
		}
	}
	if tier == "thorough" {
		// one non-canonical representative per orbit of the |T|=2 sets (checks the symmetry reduction itself)
		for _, set := range templateSets(2, 2, nil) {
			var alt []string
			for _, t := range set {
				alt = append(alt, applySym(t, c03Sym[3]))
			}
			if strings.Join(alt, " ") != strings.Join(set, " ") {
				out = append(out, routeState{ts: mkTemplates(alt, G, GP), base: none})
			}
		}
	}
	// |T| = 3
	if tier == "thorough" {
		for _, set := range templateSets(3, 2, nil) {
			out = append(out, routeState{ts: mkTemplates(set, G, G, G), base: none})
		}
	} else {
		for _, set := range templateSets(3, 2, func(ts []string) bool {
			// quick: triples containing both a literal and a variable first segment
			lit, v := false, false
			for _, t := range ts {
				if refmodel.IsVar(refmodel.Segs(t)[0]) {
					v = true
				} else {
					lit = true
				}
			}
			return lit && v && len(strings.Join(ts, "")) <= 14
		}) {
			out = append(out, routeState{ts: mkTemplates(set, G, G, G), base: none})
		}
	}
	return out
}

func routeBState(rs routeState, prop string, extra func(*drv.RoutePayload, *genrun.Job)) BState {
	sp := routeSpec(rs.ts, nil)
	if len(rs.base.Servers) > 0 {
		sp = cells.WithBase(sp, rs.base)
	}
	pl := &drv.RoutePayload{State: rs.id(), Templates: rs.ts, Base: rs.base.Want, BaseName: rs.base.Name, Prefixes: prefixesFor(rs.base.Want),
		Segs: []string{"a", "b", "c", ""}, MaxDepth: 5, Methods: []string{"GET", "POST", "DELETE", "OPTIONS"}, SpecName: "openapi.yaml"}
	if rs.segs != nil {
		pl.Segs = rs.segs
		pl.MaxDepth = 3
	}
	g := &genrun.Job{Spec: sp.YAML(), BasePath: rs.base.Flag}
	if extra != nil {
		extra(pl, g)
	}
	return BState{ID: rs.id(), Attrs: map[string]string{"nT": fmt.Sprint(len(rs.ts))}, Gen: g, Prop: prop, Payload: pl}
}

func C03(run *report.Run) {
	env := NewEnv(false)
	defer env.Close()
	rss := c03States(run.Tier)
	var states []BState
	for _, rs := range rss {
		states = append(states, routeBState(rs, "C03", nil))
	}
	st := RunBatch(run, env, states, 250)
	run.Cov["states"] = st.Healthy
	run.Cov["transitions"] = st.Counters["requests"]
	run.Cov["traces_validated_against_impl"] = st.Counters["requests"]
	run.Cov["outcome_classes"] = map[string]int64{"dispatch": st.Counters["dispatch"], "notfound": st.Counters["notfound"]}
	run.Cov["requests_with_competing_templates"] = st.Counters["competing"]
	run.Cov["masked_states"] = st.Masked
	run.Cov["masked_why"] = st.MaskedWhy
	run.Cov["enumerated_states"] = st.States
	run.Cov["rule"] = "state = canonical set of pairwise non-equivalent path templates over {a,b,{x},{y},empty-last} × method sets × base-path form, generated and compiled; transition = one request (every path of <=5 segments over {a,b,c,empty} under 5-7 prefixes × 4 methods × custom/default not-found handler) served by API.ServeHTTP and compared with the reference matcher"
	run.Assumptions = []string{"template sets canonicalised under a<->b and x<->y", "empty request segment aligned with a variable, and best-path-lacks-method, are don't-cares (DESIGN §11)"}
	if st.Healthy == 0 {
		run.Cap("no state could be compiled")
	}
}
