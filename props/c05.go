package props

import (
	"fmt"
	"sort"
	"strings"

	"verif/cells"
	"verif/drv"
	"verif/genrun"
	"verif/refmodel"
	"verif/report"
	"verif/spec"
)

func init() { Registry["C05"] = C05 }

type c05type struct {
	name   string
	pt     drv.PType
	schema func(s *spec.Spec) *spec.Schema
}

func c05Types(tier string) []c05type {
	prim := func(n, t, f string) c05type {
		return c05type{n, drv.PType{Type: t, Format: f}, func(*spec.Spec) *spec.Schema { return spec.TF(t, f) }}
	}
	ref := c05type{"ref-int32", drv.PType{Type: "integer", Format: "int32"}, func(s *spec.Spec) *spec.Schema {
		found := false
		for _, x := range s.Comp.Schemas {
			if x.Name == "PInt" {
				found = true
			}
		}
		if !found {
			s.Comp.Schemas = append(s.Comp.Schemas, spec.NamedSchema{Name: "PInt", Schema: spec.TF("integer", "int32")})
		}
		return spec.RefTo("PInt")
	}}
	refs := c05type{"ref-string", drv.PType{Type: "string"}, func(s *spec.Spec) *spec.Schema {
		found := false
		for _, x := range s.Comp.Schemas {
			if x.Name == "PStr" {
				found = true
			}
		}
		if !found {
			s.Comp.Schemas = append(s.Comp.Schemas, spec.NamedSchema{Name: "PStr", Schema: spec.T("string")})
		}
		return spec.RefTo("PStr")
	}}
	q := []c05type{prim("string", "string", ""), prim("int32", "integer", "int32"), prim("date-time", "string", "date-time"), ref, refs}
	if tier == "thorough" {
		q = append(q, prim("integer", "integer", ""), prim("int64", "integer", "int64"), prim("number", "number", ""), prim("float", "number", "float"), prim("boolean", "boolean", ""))
	}
	return q
}

var c05Shapes = [][]string{
	{"/{x}"}, {"/a/{x}"}, {"/{x}/a"}, {"/{x}/{y}"}, {"/a/{x}/b/{y}"}, {"/{x}/"}, {"/a/{x}/"}, {"/{x}/a/{y}"}, {"/a/b/{x}"}, {"/{x}/{y}/a"},
	{"/{x}", "/a"}, {"/a/{x}", "/a/b"}, {"/a/{x}", "/{y}/b"}, {"/{x}/{y}", "/a/{x}"}, {"/{x}/a", "/{x}/b/{y}"},
	// constant segments whose byte length, rune count and escaped length all differ
	{"/é/{x}"}, {"/商店/{x}/ü/{y}"}, {"/a\"b/{x}"},
}

func C05(run *report.Run) {
	env := NewEnv(false)
	defer env.Close()
	types := c05Types(run.Tier)
	bases := []string{"none", "v1"}
	if run.Tier == "thorough" {
		bases = []string{"none", "v1", "v1slash", "vars", "flag", "v1v2"}
	}
	var states []BState
	for _, shape := range c05Shapes {
		// variables of the shape, in order of first appearance (template, position)
		type tv struct{ tmpl, name string }
		var vars []tv
		for _, t := range shape {
			for _, s := range refmodel.Segs(t) {
				if refmodel.IsVar(s) {
					vars = append(vars, tv{t, s[1 : len(s)-1]})
				}
			}
		}
		// all type assignments for up to 2 variable slots; further slots repeat the first type
		n := len(vars)
		slots := min(n, 2)
		total := 1
		for i := 0; i < slots; i++ {
			total *= len(types)
		}
		for a := 0; a < total; a++ {
			assign := make([]c05type, n)
			x := a
			for i := 0; i < n; i++ {
				if i < slots {
					assign[i] = types[x%len(types)]
					x /= len(types)
				} else {
					assign[i] = assign[0]
				}
			}
			for _, declOrder := range []string{"template", "reversed-op", "override", "sibling"} {
				if declOrder == "reversed-op" && (n < 2 || a%3 != 0) {
					continue
				}
				if declOrder == "sibling" && a%2 != 1 {
					continue
				}
				if declOrder == "override" && a%2 != 0 {
					continue
				}
				for _, bn := range bases {
					if bn != "none" && bn != "v1" && a%4 != 0 {
						continue
					}
					base := cells.BaseFormByName(bn)
					methods := []string{"GET"}
					if declOrder == "sibling" {
						methods = []string{"GET", "DELETE"}
					}
					ts := mkTemplates(shape, methods)
					varTypes := map[string]map[string]drv.PType{}
					varTypesByOp := map[string]map[string]drv.PType{}
					sp := &spec.Spec{}
					vi := 0
					segAlpha := map[string]bool{"a": true, "b": true, "": true}
					var names []string
					for _, t := range ts {
						pi := &spec.PathItem{Template: t.Path}
						op := &spec.Op{Method: "GET", Responses: []*spec.Response{{Status: "default", Desc: "d"}}}
						varTypes[t.Path] = map[string]drv.PType{}
						for _, sg := range refmodel.Segs(t.Path) {
							if !refmodel.IsVar(sg) {
								segAlpha[sg] = true
							}
						}
						var ps []*spec.Param
						for _, s := range refmodel.Segs(t.Path) {
							if refmodel.IsVar(s) {
								name := s[1 : len(s)-1]
								ty := assign[vi]
								vi++
								varTypes[t.Path][name] = ty.pt
								names = append(names, ty.name)
								ps = append(ps, &spec.Param{Name: name, In: "path", Required: true, Schema: ty.schema(sp)})
								for _, lx := range refmodel.Lexemes(ty.pt.Type, ty.pt.Format) {
									if !strings.Contains(lx, "/") {
										segAlpha[lx] = true
									}
								}
							}
						}
						switch declOrder {
						case "reversed-op":
							for i, j := 0, len(ps)-1; i < j; i, j = i+1, j-1 {
								ps[i], ps[j] = ps[j], ps[i]
							}
							op.Params = ps
						case "override":
							// the path item declares every variable as a boolean; the operation re-declares them
							for _, p := range ps {
								pi.Params = append(pi.Params, &spec.Param{Name: p.Name, In: "path", Required: true, Schema: spec.T("boolean")})
							}
							op.Params = ps
						case "sibling":
							// the path item declares the variables; GET inherits them, DELETE re-declares every one
							// as a boolean (a string where it already is a boolean)
							pi.Params = ps
							del := &spec.Op{Method: "DELETE", Responses: []*spec.Response{{Status: "default", Desc: "d"}}}
							varTypesByOp["DELETE "+t.Path] = map[string]drv.PType{}
							for _, p := range ps {
								ot := drv.PType{Type: "boolean"}
								if varTypes[t.Path][p.Name].Type == "boolean" {
									ot = drv.PType{Type: "string"}
								}
								del.Params = append(del.Params, &spec.Param{Name: p.Name, In: "path", Required: true, Schema: spec.T(ot.Type)})
								varTypesByOp["DELETE "+t.Path][p.Name] = ot
								for _, lx := range refmodel.Lexemes(ot.Type, "") {
									if !strings.Contains(lx, "/") {
										segAlpha[lx] = true
									}
								}
							}
							pi.Ops = []*spec.Op{op, del}
						default:
							pi.Params = ps
						}
						if len(pi.Ops) == 0 {
							pi.Ops = []*spec.Op{op}
						}
						sp.Paths = append(sp.Paths, pi)
					}
					if len(base.Servers) > 0 {
						sp = cells.WithBase(sp, base)
					}
					var segs []string
					for s := range segAlpha {
						segs = append(segs, s)
					}
					sort.Strings(segs)
					maxDepth := 0
					for _, t := range shape {
						if d := len(refmodel.Segs(t)); d > maxDepth {
							maxDepth = d
						}
					}
					if maxDepth > 3 {
						// deep templates: literals fixed, only variable-aligned segments vary (depth product too large otherwise)
						maxDepth = 4
						if len(segs) > 12 {
							segs = reduceSegs(segs)
						}
					}
					id := fmt.Sprintf("T={%s};types=%s;decl=%s;base=%s", strings.Join(shape, " "), strings.Join(names, ","), declOrder, bn)
					pl := &drv.PathPayload{RoutePayload: drv.RoutePayload{State: id, Templates: ts, Base: base.Want, BaseName: bn, Prefixes: []string{base.Want},
						Segs: segs, MaxDepth: maxDepth, Methods: methods}, VarTypes: varTypes, VarTypesByOp: varTypesByOp}
					states = append(states, BState{ID: id, Attrs: map[string]string{"shape": strings.Join(shape, " "), "decl": declOrder}, Gen: &genrun.Job{Spec: sp.YAML(), BasePath: base.Flag}, Prop: "C05", Payload: pl})
				}
			}
		}
	}
	// component path parameters that share the parameter NAME but not the component key or the type: two
	// templates, each referencing its own component (one keyed like the name, one keyed differently)
	for ai, ta := range types {
		for bi, tb := range types {
			if ai == bi {
				continue
			}
			for _, keyFirst := range []bool{true, false} {
				sp := &spec.Spec{}
				ka, kb := "x", "xOther"
				if !keyFirst {
					ka, kb = "xOther", "x"
				}
				sp.Comp.Params = []spec.NamedParam{
					{Name: ka, Param: &spec.Param{Name: "x", In: "path", Required: true, Schema: ta.schema(sp)}},
					{Name: kb, Param: &spec.Param{Name: "x", In: "path", Required: true, Schema: tb.schema(sp)}}}
				ok := func() []*spec.Response { return []*spec.Response{{Status: "default", Desc: "d"}} }
				sp.Paths = []*spec.PathItem{
					{Template: "/a/{x}", Params: []*spec.Param{{Ref: ka}}, Ops: []*spec.Op{{Method: "GET", Responses: ok()}}},
					{Template: "/b/{x}", Ops: []*spec.Op{{Method: "GET", Params: []*spec.Param{{Ref: kb}}, Responses: ok()}}}}
				segAlpha := map[string]bool{"a": true, "b": true, "": true}
				for _, t := range []c05type{ta, tb} {
					for _, lx := range refmodel.Lexemes(t.pt.Type, t.pt.Format) {
						if !strings.Contains(lx, "/") {
							segAlpha[lx] = true
						}
					}
				}
				var segs []string
				for sg := range segAlpha {
					segs = append(segs, sg)
				}
				sort.Strings(segs)
				ts := mkTemplates([]string{"/a/{x}", "/b/{x}"}, []string{"GET"})
				varTypes := map[string]map[string]drv.PType{"/a/{x}": {"x": ta.pt}, "/b/{x}": {"x": tb.pt}}
				id := fmt.Sprintf("paramcomponents[a=%s,b=%s,keyEqualsNameOn=%v]", ta.name, tb.name, map[bool]string{true: "/a", false: "/b"}[keyFirst])
				pl := &drv.PathPayload{RoutePayload: drv.RoutePayload{State: id, Templates: ts, Prefixes: []string{""}, Segs: segs, MaxDepth: 2, Methods: []string{"GET"}}, VarTypes: varTypes}
				states = append(states, BState{ID: id, Attrs: map[string]string{"shape": "/a/{x} /b/{x}", "decl": "param-components"}, Gen: &genrun.Job{Spec: sp.YAML()}, Prop: "C05", Payload: pl})
			}
		}
	}
	st := RunBatch(run, env, states, 250)
	run.Cov["states"] = st.Healthy
	run.Cov["transitions"] = st.Counters["requests"]
	run.Cov["traces_validated_against_impl"] = st.Counters["judged"]
	run.Cov["outcome_classes"] = map[string]int64{"expect-ok": st.Counters["expect-ok"], "expect-fail": st.Counters["expect-fail"], "dontcare": st.Counters["dontcare"], "dispatched": st.Counters["dispatched"]}
	run.Cov["masked_states"] = st.Masked
	run.Cov["masked_why"] = st.MaskedWhy
	run.Cov["enumerated_states"] = st.States
	run.Cov["rule"] = "state = template shape × type assignment of its variables × declaration order/level (path item, operation reversed, operation overriding the path item, sibling operation overriding while the judged one inherits) × base-path form; transition = one request path over {a, b, empty} ∪ the lexeme tables of the assigned types (canonical, boundary, out-of-range, garbage), all sequences up to the template depth; judged when dispatched: Parse() vs reference lexer on the aligned segments"
}

// reduceSegs keeps a spread of a long lexeme alphabet (every third lexeme plus literals and empty).
func reduceSegs(segs []string) []string {
	var out []string
	for i, s := range segs {
		if s == "" || s == "a" || s == "b" || i%3 == 0 {
			out = append(out, s)
		}
	}
	return out
}
