package props

import (
	"fmt"

	"verif/cells"
	"verif/drv"
	"verif/genrun"
	"verif/report"
	"verif/spec"
)

func init() { Registry["C09"] = C09 }

func C09(run *report.Run) {
	env := NewEnv(false)
	defer env.Close()
	var states []BState
	add := func(id string, attrs map[string]string, s *spec.Spec, pl *drv.C09Payload, flag string) {
		pl.State = id
		pl.Spec = s
		pl.SpecYAML = string(s.YAML())
		pl.Cap = 400
		states = append(states, BState{ID: id, Attrs: attrs, Gen: &genrun.Job{Spec: s.YAML(), Client: true, BasePath: flag}, Prop: "C09", Payload: pl})
	}
	// (1) single parameter cells: every leaf kind × {query, query array, header, path} × required × declaration form
	for _, c := range cells.ParamCells() {
		a := c.Attrs
		tf, isLeaf := leafTypes[a["kind"]]
		if !isLeaf || a["null"] == "1" || a["loc"] == "cookie" || a["loc"] == "header-array" {
			continue
		}
		if a["level"] == "override" {
			continue
		}
		if run.Tier == "quick" && (a["decl"] == "schema-alias" || a["level"] != "op") {
			// quick: besides the operation level, the inherited-next-to-an-overriding-sibling level on two kinds
			if !(a["level"] == "sibling" && a["decl"] == "inline" && (a["kind"] == "int32" || a["kind"] == "string")) {
				continue
			}
		}
		in := map[string]string{"query": "query", "query-array": "query", "header": "header", "path": "path"}[a["loc"]]
		pd := drv.ParamDecl{Name: "v", In: in, Required: a["req"] == "1", Array: a["loc"] == "query-array", Type: tf[0], Format: tf[1]}
		if pd.Type == "string" && pd.Format != "date-time" {
			pd.Format = ""
		}
		if pd.Format == "double" {
			pd.Format = ""
		}
		tmpl := "/p"
		if in == "path" {
			tmpl = "/p/{v}"
		}
		add(c.ID, c.Attrs, c.Spec, &drv.C09Payload{Method: "GET", Template: tmpl, Params: []drv.ParamDecl{pd}}, "")
	}
	// (2) name shapes: the client and the server derive Go field names separately
	for _, c := range cells.NameCells() {
		site := c.Attrs["site"]
		if c.Attrs["fam"] != "name" || (site != "query" && site != "header" && site != "pathparam") {
			continue
		}
		n := c.Attrs["name"]
		in := map[string]string{"query": "query", "header": "header", "pathparam": "path"}[site]
		tmpl := "/p"
		if in == "path" {
			tmpl = "/p/{" + n + "}"
		}
		add(c.ID, c.Attrs, c.Spec, &drv.C09Payload{Method: "GET", Template: tmpl, Params: []drv.ParamDecl{{Name: n, In: in, Required: in == "path", Type: "string"}}}, "")
	}
	// (3) one parameter of each location + body in one operation, under base-path forms
	k2 := [][2]string{{"string", ""}, {"integer", "int32"}, {"string", "date-time"}, {"number", ""}, {"boolean", ""}}
	bodies := map[string]*spec.Schema{
		"none":   nil,
		"object": spec.Obj(spec.P("a", spec.T("string")), spec.P("n", spec.TF("integer", "int64")), spec.P("i", spec.T("integer")), spec.P("i32", spec.TF("integer", "int32")), spec.P("f", spec.TF("number", "float")), spec.P("t", spec.TF("string", "date-time")), spec.P("l", spec.Arr(spec.T("string")))).Req("a"),
		"array":  spec.Arr(spec.TF("integer", "int32")),
		"string": spec.T("string"),
		"raw":    spec.TF("string", "binary"),
		// JSON-like media types that are not exactly application/json: client and server must agree on whether the body is typed
		"mergepatch":  spec.Obj(spec.P("a", spec.T("string"))),
		"jsoncharset": spec.Obj(spec.P("a", spec.T("string"))),
	}
	rawTypes := map[string]string{"raw": "application/octet-stream", "mergepatch": "application/merge-patch+json", "jsoncharset": "application/json; charset=utf-8"}
	for qi, qt := range k2 {
		for hi, ht := range k2 {
			if run.Tier == "quick" && (qi+hi)%2 == 1 {
				continue
			}
			for pi, ptp := range k2 {
				if run.Tier == "quick" && pi != (qi+hi)%len(k2) {
					continue
				}
				for _, bn := range spec.SortedKeys(bodies) {
					for _, bf := range []string{"none", "v1", "flag", "vars"} {
						if bf != "none" && (bn != "object" || run.Tier == "quick" && qi != 0) {
							continue
						}
						base := cells.BaseFormByName(bf)
						s := &spec.Spec{Servers: base.Servers}
						op := &spec.Op{Method: "POST", ID: "combo", Responses: []*spec.Response{{Status: "default", Desc: "d"}},
							Params: []*spec.Param{{Name: "q", In: "query", Schema: spec.TF(qt[0], qt[1])}, {Name: "qa", In: "query", Required: true, Schema: spec.Arr(spec.TF(qt[0], qt[1]))},
								{Name: "X-H", In: "header", Required: true, Schema: spec.TF(ht[0], ht[1])}, {Name: "X-Opt", In: "header", Schema: spec.T("string")}}}
						// every second combination has a static segment whose byte and rune lengths differ (the independent
						// validator cannot route those, so the others keep its verdict)
						tmpl := "/c/{seg}/x/{seg2}"
						if (qi+pi)%2 == 1 || bn == "array" {
							tmpl = "/c/{seg}/xü/{seg2}"
						}
						pis := &spec.PathItem{Template: tmpl, Ops: []*spec.Op{op},
							// declared in the reverse of the template order, behind a static segment whose byte and rune lengths differ
							Params: []*spec.Param{{Name: "seg2", In: "path", Required: true, Schema: spec.T("string")}, {Name: "seg", In: "path", Required: true, Schema: spec.TF(ptp[0], ptp[1])}}}
						s.Paths = []*spec.PathItem{pis}
						body := ""
						if sc := bodies[bn]; sc != nil {
							if ct, isRaw := rawTypes[bn]; isRaw {
								op.Body = &spec.Body{ContentType: ct, Schema: sc}
								body = "raw"
							} else {
								op.Body = &spec.Body{Schema: sc, Required: true}
								body = "json"
							}
						}
						id := fmt.Sprintf("combo[q=%s/%s,h=%s/%s,p=%s/%s,body=%s,base=%s]", qt[0], qt[1], ht[0], ht[1], ptp[0], ptp[1], bn, bf)
						pl := &drv.C09Payload{Method: "POST", Template: tmpl, Base: base.Want, Body: body, Params: []drv.ParamDecl{
							{Name: "q", In: "query", Type: qt[0], Format: qt[1]}, {Name: "qa", In: "query", Required: true, Array: true, Type: qt[0], Format: qt[1]},
							{Name: "X-H", In: "header", Required: true, Type: ht[0], Format: ht[1]}, {Name: "X-Opt", In: "header", Type: "string"},
							{Name: "seg", In: "path", Required: true, Type: ptp[0], Format: ptp[1]}, {Name: "seg2", In: "path", Required: true, Type: "string"}}}
						add(id, map[string]string{"fam": "combo", "body": bn, "base": bf}, s, pl, base.Flag)
					}
				}
			}
		}
	}
	// (4) JSON request bodies: every schema kind × form (inline / ref / alias) × inline or component body
	for _, c := range cells.SchemaCells() {
		a := c.Attrs
		if a["pos"] != "reqbody" {
			continue
		}
		if a["null"] == "1" && run.Tier == "quick" {
			continue
		}
		pl := &drv.C09Payload{Method: "POST", Template: "/p", Body: "json"}
		pl.DiscProp, pl.VariantKeys, pl.Ambiguous = discInfo(c.Spec)
		add(c.ID, c.Attrs, c.Spec, pl, "")
	}
	// (6) a template that ends in a slash after a variable, next to its twin without the slash: the client
	// must address exactly the operation it was called for
	for _, judged := range []string{"/t/{v}/", "/t/{v}"} {
		for _, k := range []string{"string", "int32"} {
			tf := leafTypes[k]
			sp := &spec.Spec{}
			for _, t := range []string{"/t/{v}", "/t/{v}/"} {
				sp.Paths = append(sp.Paths, &spec.PathItem{Template: t, Params: []*spec.Param{{Name: "v", In: "path", Required: true, Schema: spec.TF(tf[0], tf[1])}},
					Ops: []*spec.Op{{Method: "GET", Responses: []*spec.Response{{Status: "default", Desc: "d"}}}}})
			}
			id := fmt.Sprintf("slashtwin[judged=%s,kind=%s]", judged, k)
			add(id, map[string]string{"fam": "slashtwin", "judged": judged}, sp, &drv.C09Payload{Method: "GET", Template: judged, Params: []drv.ParamDecl{{Name: "v", In: "path", Required: true, Type: tf[0], Format: tf[1]}}}, "")
		}
	}
	// (5) credentials travel as request headers: the client must put them where the server's security
	// middleware and Parse() read them (scheme kinds × header-name shapes × document/operation level ×
	// with or without an ordinary header parameter next to them)
	type sec struct {
		key, hdr string
		scheme   spec.SecScheme
	}
	secs := []sec{{"bearer", "Authorization", spec.SecScheme{Key: "bearer", Type: "http", Scheme: "bearer"}}}
	for _, n := range []string{"X-Key", "X-Shop-Key", "Access-Token", "x-lower-case", "X_Under", "Token"} {
		secs = append(secs, sec{"k", n, spec.SecScheme{Key: "k", Type: "apiKey", In: "header", Name: n}},
			sec{n, n, spec.SecScheme{Key: n, Type: "apiKey", In: "header", Name: n}})
	}
	for _, sc := range secs {
		for _, level := range []string{"doc", "op"} {
			for _, withParam := range []bool{false, true} {
				s, _, op := cells.Base()
				s.Comp.Security = []spec.SecScheme{sc.scheme}
				req := []spec.SecReq{{sc.scheme.Key}}
				if level == "doc" {
					s.Security = &req
				} else {
					op.Security = &req
				}
				pds := []drv.ParamDecl{{Name: sc.hdr, In: "header", Required: true, Type: "string"}}
				if withParam {
					op.Params = []*spec.Param{{Name: "X-Other", In: "header", Required: true, Schema: spec.T("string")}}
					pds = append(pds, drv.ParamDecl{Name: "X-Other", In: "header", Required: true, Type: "string"})
				}
				id := fmt.Sprintf("security[scheme=%s,key=%s,header=%s,level=%s,param=%v]", sc.scheme.Type, sc.scheme.Key, sc.hdr, level, withParam)
				add(id, map[string]string{"fam": "security", "scheme": sc.scheme.Type, "level": level}, s, &drv.C09Payload{Method: "GET", Template: "/p", Params: pds}, "")
			}
		}
	}
	st := RunBatch(run, env, states, 250)
	run.Cov["states"] = st.Healthy
	run.Cov["transitions"] = st.Counters["calls"]
	run.Cov["traces_validated_against_impl"] = st.Counters["calls"]
	run.Cov["outcome_classes"] = map[string]int64{"agree": st.Counters["agree"], "kin-validated": st.Counters["kin-validated"]}
	run.Cov["caps"] = map[string]int64{"value-cap-hit": st.Counters["value-cap-hit"], "product-cap-hit": st.Counters["product-cap-hit"]}
	run.Cov["masked_states"] = st.Masked
	run.Cov["masked_why"] = st.MaskedWhy
	run.Cov["enumerated_states"] = st.States
	run.Cov["rule"] = "state = one operation (single parameter cells of every leaf kind × location × required × declaration form; name shapes per location; one parameter of each location of 5 kinds + body kinds under base-path forms; a JSON request body of every schema kind × ref/inline/alias form × inline/component body; bearer and apiKey-header credentials over header-name shapes), compiled with the client; transition = one value of the generated Params type enumerated by reflection (per-location string domains with reserved characters, boundary numbers, zoned times, arrays of 1-2 elements; full product up to 400 else single-group sweeps) sent with Client.<Op> through an in-memory transport that re-parses the wire URI; oracle = the handler's Parse() result equals the value sent, every wire parameter text lexes under its declared type, and kin-openapi's request validator accepts the request"
	run.Assumptions = []string{"§11 restrictions: path values non-empty and '/'-free, arrays non-empty, header strings visible ASCII without surrounding space, times compared as instants, no NaN/Inf"}
}
