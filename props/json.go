package props

import (
	"fmt"
	"strings"

	"verif/cells"
	"verif/drv"
	"verif/genrun"
	"verif/report"
	"verif/spec"
)

func init() {
	Registry["C06"] = func(r *report.Run) { jsonFamily(r, "C06") }
	Registry["C07"] = func(r *report.Run) { jsonFamily(r, "C07") }
	Registry["C08"] = func(r *report.Run) { jsonFamily(r, "C08") }
}

func addTop(s *spec.Spec, sc *spec.Schema) {
	s.Comp.Schemas = append(s.Comp.Schemas, spec.NamedSchema{Name: "Top", Schema: sc})
}

func addNamed(s *spec.Spec, name string, sc *spec.Schema) {
	for _, x := range s.Comp.Schemas {
		if x.Name == name {
			return
		}
	}
	s.Comp.Schemas = append(s.Comp.Schemas, spec.NamedSchema{Name: name, Schema: sc})
}

// jsonCells: the schema states of the JSON family (C06/C07/C08); every cell defines component "Top".
func jsonCells(tier string) []cells.Cell {
	var out []cells.Cell
	k2 := map[string]bool{}
	for _, k := range cells.K2Names {
		k2[k] = true
	}
	for _, k := range []string{"boolean", "integer", "int64", "number", "float", "any", "map<string>", "object+addtrue", "object+add<string>", "array<object>", "array<ref>", "oneOf+disc", "allOf[ref,ref]", "map<ref>", "map<any>", "array<map<int32>>", "array<oneOf[ref,ref]>", "array<array<string>>", "oneOf+disc-partial"} {
		k2[k] = true
	}
	for _, c := range cells.SchemaCells() {
		switch c.Attrs["pos"] {
		case "component", "property", "items", "addprops", "oneof", "allof":
		default:
			continue
		}
		if tier == "quick" {
			if !k2[c.Attrs["kind"]] {
				continue
			}
			if c.Attrs["form"] == "alias" {
				continue
			}
		}
		out = append(out, c)
	}
	// objects of three properties over all required × nullable combinations
	for m := 0; m < 64; m++ {
		s, _, _ := cells.Base()
		type pd struct {
			n  string
			sc *spec.Schema
		}
		ps := []pd{{"a", spec.T("string")}, {"b", spec.TF("integer", "int32")}, {"c", spec.Arr(spec.T("string"))}}
		o := &spec.Schema{Type: "object"}
		desc := []string{}
		for i, p := range ps {
			req, null := m>>(2*i)&1 == 1, m>>(2*i+1)&1 == 1
			sc := p.sc
			if null {
				sc = sc.Null()
			}
			o.Props = append(o.Props, spec.P(p.n, sc))
			if req {
				o.Required = append(o.Required, p.n)
			}
			desc = append(desc, fmt.Sprintf("%s:req=%s,null=%s", p.n, b01(req), b01(null)))
		}
		addTop(s, o)
		out = append(out, cells.NewCell("json-obj3", map[string]string{"props": strings.Join(desc, ";")}, s))
	}
	// two properties of different kinds in one object (both optional, inline): the encoder and decoder of
	// one property next to those of another (separators, scratch variables, hoisted types)
	{
		pk := []string{"int32", "string", "date-time", "array<string>", "object", "oneOf[ref,ref]", "map<string>", "any"}
		if tier != "quick" {
			pk = append(pk, "boolean", "number", "array<object>", "array<ref>", "allOf[ref,inline]", "oneOf+disc", "object+add<string>", "array<map<int32>>", "array<array<string>>", "map<ref>")
		}
		for _, ka := range pk {
			for _, kb := range pk {
				if ka == kb {
					continue
				}
				s, _, _ := cells.Base()
				pa := cells.Materialise(s, cells.KindByName(ka), "inline", false, "KA")
				pb := cells.Materialise(s, cells.KindByName(kb), "inline", false, "KB")
				addTop(s, spec.Obj(spec.P("f", pa), spec.P("g", pb)))
				out = append(out, cells.NewCell("json-pair", map[string]string{"first": ka, "second": kb}, s))
			}
		}
	}
	// goag's private time-layout extension (one lossless literal layout that is not RFC 3339) on required,
	// optional and nullable date-time properties next to a plain one: encoder, decoder and the documented
	// wire form must agree on which layout applies to which property. Array items are left out: goag
	// applies the layout to properties only (items travel as RFC 3339), so "valid document" is ambiguous there
	{
		lay := func() *spec.Schema {
			t := spec.TF("string", "date-time")
			t.Ext = map[string]any{"x-goag-go-time-format": `"2006-01-02 15:04:05.999999999Z07:00"`}
			return t
		}
		s, _, _ := cells.Base()
		addTop(s, spec.Obj(spec.P("at", lay()), spec.P("opt", lay()), spec.P("nul", lay().Null()), spec.P("plain", spec.TF("string", "date-time"))).Req("at"))
		out = append(out, cells.NewCell("json-layout", map[string]string{"shape": "object-time-layout"}, s))
	}
	// a component that references another one sorting after it (forward) or before it (backward), the target
	// nullable or not: what the referencing type knows about its target must not depend on build order
	for _, dir := range []string{"forward", "backward"} {
		for _, pos := range []string{"items", "property", "addprops"} {
			for _, nullTarget := range []bool{false, true} {
				s, _, _ := cells.Base()
				target := "Zulu"
				if dir == "backward" {
					target = "Alpha"
				}
				tsc := spec.Obj(spec.P("name", spec.T("string")), spec.P("n", spec.TF("integer", "int32"))).Req("name")
				if nullTarget {
					tsc = tsc.Null()
				}
				addNamed(s, target, tsc)
				var top *spec.Schema
				switch pos {
				case "items":
					top = spec.Obj(spec.P("list", spec.Arr(spec.RefTo(target))))
				case "property":
					top = spec.Obj(spec.P("one", spec.RefTo(target)), spec.P("k", spec.T("string")))
				case "addprops":
					top = &spec.Schema{Type: "object", Add: spec.RefTo(target)}
				}
				addTop(s, top)
				out = append(out, cells.NewCell("json-reforder", map[string]string{"dir": dir, "pos": pos, "nullTarget": b01(nullTarget)}, s))
			}
		}
	}
	// allOf member orders
	members := map[string]func(s *spec.Spec) *spec.Schema{
		"refAB": func(s *spec.Spec) *spec.Schema {
			addNamed(s, "Item", spec.Obj(spec.P("a", spec.T("string")), spec.P("b", spec.TF("integer", "int32"))).Req("a"))
			return spec.RefTo("Item")
		},
		"inlineOpt": func(s *spec.Spec) *spec.Schema { return spec.Obj(spec.P("c", spec.T("string"))) },
		"refAllOpt": func(s *spec.Spec) *spec.Schema {
			addNamed(s, "AllOpt", spec.Obj(spec.P("d", spec.T("string")), spec.P("e", spec.T("boolean"))))
			return spec.RefTo("AllOpt")
		},
		"inlineReq": func(s *spec.Spec) *spec.Schema { return spec.Obj(spec.P("f", spec.TF("number", "double"))).Req("f") },
	}
	mnames := spec.SortedKeys(members)
	var perms func(cur []string, n int)
	perms = func(cur []string, n int) {
		if len(cur) == n {
			s, _, _ := cells.Base()
			var l []*spec.Schema
			for _, m := range cur {
				l = append(l, members[m](s))
			}
			addTop(s, &spec.Schema{AllOf: l})
			out = append(out, cells.NewCell("json-allof", map[string]string{"members": strings.Join(cur, ",")}, s))
			return
		}
		for _, m := range mnames {
			used := false
			for _, c := range cur {
				if c == m {
					used = true
				}
			}
			if !used {
				perms(append(append([]string{}, cur...), m), n)
			}
		}
	}
	perms(nil, 2)
	perms(nil, 3)
	// oneOf shapes
	for _, shape := range []string{"2", "3", "disc", "disc+mapping", "disc+partial-mapping", "inline-variants", "shared-optional", "inline-then-ref"} {
		s, _, _ := cells.Base()
		addNamed(s, "Cat", spec.Obj(spec.P("kind", spec.T("string")), spec.P("a", spec.T("string"))).Req("kind", "a"))
		addNamed(s, "Dog", spec.Obj(spec.P("kind", spec.T("string")), spec.P("c", spec.TF("integer", "int32"))).Req("kind", "c"))
		addNamed(s, "Emu", spec.Obj(spec.P("kind", spec.T("string")), spec.P("e", spec.T("boolean"))).Req("kind", "e"))
		top := &spec.Schema{OneOf: []*spec.Schema{spec.RefTo("Cat"), spec.RefTo("Dog")}}
		switch shape {
		case "3":
			top.OneOf = append(top.OneOf, spec.RefTo("Emu"))
		case "disc":
			top.Disc = &spec.Disc{Prop: "kind"}
		case "disc+mapping":
			top.OneOf = append(top.OneOf, spec.RefTo("Emu"))
			top.Disc = &spec.Disc{Prop: "kind", Mapping: map[string]string{"cat": "Cat", "dog": "Dog", "emu": "Emu", "bird": "Emu"}}
		case "disc+partial-mapping":
			// fewer mapping entries than variants, and the mapped variants are not the last one
			top.OneOf = append(top.OneOf, spec.RefTo("Emu"))
			top.Disc = &spec.Disc{Prop: "kind", Mapping: map[string]string{"kitty": "Cat", "doggo": "Dog"}}
		case "shared-optional":
			// variants told apart by a required key that sorts AFTER an optional key they all share
			addNamed(s, "Company", spec.Obj(spec.P("phone", spec.T("string")), spec.P("vat", spec.T("string")), spec.P("legal", spec.T("string"))).Req("vat"))
			addNamed(s, "Person", spec.Obj(spec.P("phone", spec.T("string")), spec.P("zfirst", spec.T("string"))).Req("zfirst"))
			addNamed(s, "Mailbox", spec.Obj(spec.P("phone", spec.T("string")), spec.P("zzaddr", spec.T("string"))).Req("zzaddr"))
			top.OneOf = []*spec.Schema{spec.RefTo("Company"), spec.RefTo("Person"), spec.RefTo("Mailbox")}
		case "inline-then-ref":
			// an inline variant listed BEFORE a $ref variant whose required keys are a subset of its own
			addNamed(s, "PersonRef", spec.Obj(spec.P("id", spec.TF("integer", "int32"))).Req("id"))
			top.OneOf = []*spec.Schema{spec.Obj(spec.P("id", spec.TF("integer", "int32")), spec.P("email", spec.T("string"))).Req("id", "email"), spec.RefTo("PersonRef")}
		case "inline-variants":
			top.OneOf = []*spec.Schema{spec.Obj(spec.P("x", spec.T("string"))).Req("x"), spec.Obj(spec.P("y", spec.TF("integer", "int32"))).Req("y")}
		}
		addTop(s, top)
		out = append(out, cells.NewCell("json-oneof", map[string]string{"shape": shape}, s))
	}
	// nesting
	nest := map[string]*spec.Schema{
		"obj>arr>obj":   spec.Obj(spec.P("items", spec.Arr(spec.Obj(spec.P("k", spec.T("string")), spec.P("n", spec.TF("integer", "int64"))).Req("k")))).Req("items"),
		"obj>obj>obj":   spec.Obj(spec.P("l1", spec.Obj(spec.P("l2", spec.Obj(spec.P("k", spec.T("string"))))))),
		"map>arr":       {Type: "object", Add: spec.Arr(spec.TF("integer", "int32"))},
		"arr>arr":       spec.Arr(spec.Arr(spec.T("string"))),
		"obj>map>obj":   spec.Obj(spec.P("m", &spec.Schema{Type: "object", Add: spec.Obj(spec.P("k", spec.T("string")))})),
		"arr>nullable":  spec.Arr(spec.T("string").Null()),
		"obj+props+map": {Type: "object", Props: []spec.Prop{spec.P("key", spec.T("string")), spec.P("n", spec.TF("integer", "int32"))}, Required: []string{"key"}, Add: spec.TF("integer", "int32")},
		// property names outside ASCII
		"unicode-props": spec.Obj(spec.P("größe", spec.TF("integer", "int32")), spec.P("prénom", spec.T("string")), spec.P("名前", spec.T("string")), spec.P("plain", spec.T("string"))).Req("größe", "prénom"),
		// required names in declaration order, which is not the sorted order
		"req-unsorted": spec.Obj(spec.P("id", spec.TF("integer", "int32")), spec.P("name", spec.T("string")), spec.P("email", spec.T("string")), spec.P("zip", spec.T("string")), spec.P("active", spec.T("boolean"))).Req("zip", "id", "name", "email"),
		"time-props":   spec.Obj(spec.P("t", spec.TF("string", "date-time")), spec.P("ts", spec.Arr(spec.TF("string", "date-time")))).Req("t"),
	}
	for _, n := range spec.SortedKeys(nest) {
		s, _, _ := cells.Base()
		addTop(s, nest[n])
		out = append(out, cells.NewCell("json-nest", map[string]string{"shape": n}, s))
	}
	return out
}

func jsonFamily(run *report.Run, mode string) {
	env := NewEnv(false)
	defer env.Close()
	var states []BState
	valueCap := 2000
	for _, c := range jsonCells(run.Tier) {
		for _, withOps := range []bool{false, true} {
			if withOps && mode == "C06" {
				continue
			}
			s := c.Spec
			id := c.ID
			pl := &drv.JSONPayload{State: id, Mode: mode, Type: "Top", Cap: valueCap}
			jsonDiscInfo(s, pl)
			if withOps {
				s = s.Clone()
				s.Paths = append(s.Paths,
					&spec.PathItem{Template: "/body", Ops: []*spec.Op{{Method: "POST", Body: &spec.Body{Schema: spec.RefTo("Top"), Required: true}, Responses: []*spec.Response{{Status: "default", Desc: "d"}}}}},
					&spec.PathItem{Template: "/resp", Ops: []*spec.Op{{Method: "GET", Responses: []*spec.Response{{Status: "200", Desc: "r", Schema: spec.RefTo("Top")}}}}})
				id += "+ops"
				pl.State, pl.BodyOp, pl.RespOp = id, "/body", "/resp"
			}
			pl.Spec = s
			pl.SpecYAML = string(s.YAML())
			attrs := mergeAttrs(c.Attrs, map[string]string{"ops": b01(withOps)})
			states = append(states, BState{ID: id, Attrs: attrs, Gen: &genrun.Job{Spec: s.YAML(), Client: withOps}, Prop: mode, Payload: pl})
		}
	}
	st := RunBatch(run, env, states, 250)
	run.Cov["states"] = st.Healthy
	tr := st.Counters["values"] + st.Counters["documents"] + st.Counters["response-bodies"] + st.Counters["client-bodies"] + st.Counters["body-requests"]
	run.Cov["transitions"] = tr
	run.Cov["traces_validated_against_impl"] = tr
	run.Cov["counters"] = st.Counters
	run.Cov["masked_states"] = st.Masked
	run.Cov["masked_why"] = st.MaskedWhy
	run.Cov["enumerated_states"] = st.States
	if st.Counters["value-cap-hit"] > 0 {
		run.Cov["value_product_caps"] = st.Counters["value-cap-hit"]
	}
	switch mode {
	case "C06":
		run.Cov["rule"] = "state = one component schema (kind × position × required × nullable × ref/inline cells, three-property objects over all required/nullable combinations, allOf member orders, oneOf shapes, nesting), compiled; transition = one value of the generated Go type, enumerated from the type by reflection over small leaf domains (full product when <= 2000, else everything within 2 moves of two bases plus single-field sweeps); oracle = valid JSON, decodes, equal value"
	case "C07":
		run.Cov["rule"] = "same states and values as C06 (plus variants with a request-body and a response operation); oracle = clause-by-clause conformance of the produced JSON with the SOURCE schema and the Go value (independent of goag's decoder) and kin-openapi's schema visitor; also applied to response bodies written by the handler and request bodies sent by the generated client"
	case "C08":
		run.Cov["rule"] = "same schema states; transition = one JSON document generated FROM the schema (all optional subsets, null where allowed, leaf spellings, extra keys, every key order <= 4 keys, each oneOf variant) or a single-fault mutant (drop a required key; replace a declared property's value by a token of another JSON type), decoded directly and as a request body; oracle = valid decodes and re-encodes to an equal JSON value; faults are rejected naming the property"
	}
}

// jsonDiscInfo finds the (single) discriminated oneOf of a state and whether it has an
// undiscriminated one.
func jsonDiscInfo(s *spec.Spec, pl *drv.JSONPayload) {
	pl.DiscProp, pl.VariantKeys, pl.Ambiguous = discInfo(s)
	for _, ns := range s.Comp.Schemas {
		if ns.Name == "Top" && ns.Schema != nil && len(ns.Schema.OneOf) > 0 && ns.Schema.Disc == nil {
			for i, v := range ns.Schema.OneOf {
				if v.Ref != "" {
					pl.OneOfOrder = append(pl.OneOfOrder, v.Ref)
				} else {
					pl.OneOfOrder = append(pl.OneOfOrder, fmt.Sprintf("OneOf%d", i))
				}
			}
		}
	}
}

func discInfo(s *spec.Spec) (discProp string, variantKeys [][]string, ambiguous bool) {
	pl := &drv.JSONPayload{}
	var walk func(sc *spec.Schema, depth int)
	walk = func(sc *spec.Schema, depth int) {
		if sc == nil || depth > 6 {
			return
		}
		if len(sc.OneOf) > 0 {
			if sc.Disc == nil {
				pl.Ambiguous = true
			} else if pl.DiscProp == "" {
				pl.DiscProp = sc.Disc.Prop
				for _, v := range sc.OneOf {
					var keys []string
					for _, k := range spec.SortedKeys(sc.Disc.Mapping) {
						if sc.Disc.Mapping[k] == v.Ref {
							keys = append(keys, k)
						}
					}
					if len(keys) == 0 {
						keys = []string{v.Ref} // implicit mapping: the schema name
					}
					pl.VariantKeys = append(pl.VariantKeys, keys)
				}
			}
		}
		for _, x := range sc.OneOf {
			walk(x, depth+1)
		}
		for _, x := range sc.AllOf {
			walk(x, depth+1)
		}
		for _, p := range sc.Props {
			walk(p.Schema, depth+1)
		}
		walk(sc.Items, depth+1)
		walk(sc.Add, depth+1)
	}
	for _, ns := range s.Comp.Schemas {
		walk(ns.Schema, 0)
	}
	for _, r := range s.Comp.Responses {
		walk(r.Response.Schema, 0)
	}
	for _, b := range s.Comp.Bodies {
		walk(b.Body.Schema, 0)
	}
	for _, pi := range s.Paths {
		for _, o := range pi.Ops {
			if o.Body != nil {
				walk(o.Body.Schema, 0)
			}
			for _, r := range o.Responses {
				walk(r.Schema, 0)
			}
		}
	}
	return pl.DiscProp, pl.VariantKeys, pl.Ambiguous
}
