package props

import (
	"fmt"

	"verif/drv"
	"verif/genrun"
	"verif/refmodel"
	"verif/report"
	"verif/spec"
)

func init() { Registry["C14"] = C14 }

type sink struct {
	name string
	spec *spec.Spec
	ops  []drv.SinkOp
	cors bool
	cred []string
}

func okResp() []*spec.Response { return []*spec.Response{{Status: "default", Desc: "d"}} }

func c14Sinks() []sink {
	var out []sink
	// A: parameters of every kind in every location, under a base path
	{
		s := &spec.Spec{Servers: []spec.Server{{URL: "/v1"}}}
		s.Paths = []*spec.PathItem{{Template: "/items/{id}/{name}",
			Params: []*spec.Param{{Name: "id", In: "path", Required: true, Schema: spec.TF("integer", "int64")}, {Name: "name", In: "path", Required: true, Schema: spec.T("string")}},
			Ops: []*spec.Op{{Method: "GET", Responses: okResp(), Params: []*spec.Param{
				{Name: "n", In: "query", Required: true, Schema: spec.TF("integer", "int32")},
				{Name: "tags", In: "query", Schema: spec.Arr(spec.T("string"))},
				{Name: "ids", In: "query", Schema: spec.Arr(spec.TF("integer", "int64"))},
				{Name: "at", In: "query", Schema: spec.TF("string", "date-time")},
				{Name: "ok", In: "query", Schema: spec.T("boolean")},
				{Name: "f", In: "query", Schema: spec.TF("number", "float")},
				{Name: "X-Req", In: "header", Required: true, Schema: spec.T("string")},
				{Name: "X-N", In: "header", Schema: spec.TF("integer", "int32")},
				{Name: "X-At", In: "header", Schema: spec.TF("string", "date-time")},
			}}}},
			{Template: "/items/{id}", Params: []*spec.Param{{Name: "id", In: "path", Required: true, Schema: spec.TF("number", "double")}}, Ops: []*spec.Op{{Method: "DELETE", Responses: okResp()}}},
			{Template: "/", Ops: []*spec.Op{{Method: "GET", Responses: okResp()}}},
			// non-ASCII and quote-bearing constant segments in front of variables
			{Template: "/café/{t}", Params: []*spec.Param{{Name: "t", In: "path", Required: true, Schema: spec.T("string")}}, Ops: []*spec.Op{{Method: "GET", Responses: okResp()}}},
			{Template: "/café/{t}/menü/{i}", Params: []*spec.Param{{Name: "t", In: "path", Required: true, Schema: spec.T("string")}, {Name: "i", In: "path", Required: true, Schema: spec.TF("integer", "int32")}}, Ops: []*spec.Op{{Method: "GET", Responses: okResp()}}},
		}
		out = append(out, sink{name: "params", spec: s, ops: []drv.SinkOp{
			{Method: "GET", Path: "/v1/items/7/bob", Query: "n=1&tags=a&tags=b&at=2020-01-02T03:04:05Z&ok=true&f=1.5&ids=1", Headers: map[string]string{"X-Req": "r", "X-N": "3", "X-At": "2020-01-02T03:04:05Z"},
				QNames: []string{"n", "tags", "at", "ok", "f", "ids", "n=1"}, HNames: []string{"X-Req", "X-N", "X-At"}},
			{Method: "DELETE", Path: "/v1/items/1.5"},
			{Method: "GET", Path: "/v1/"},
			{Method: "GET", Path: "/v1/café/5"},
			{Method: "GET", Path: "/v1/café/5/menü/7"},
		}})
	}
	// B: JSON bodies of every schema kind, and a raw body
	bodyKinds := map[string]*spec.Schema{
		"obj":    {Type: "object", Props: []spec.Prop{spec.P("a", spec.T("string")), spec.P("n", spec.TF("integer", "int32")), spec.P("nested", spec.Obj(spec.P("k", spec.T("string"))))}, AddBool: spec.Bool(true)},
		"objreq": {Type: "object", Props: []spec.Prop{spec.P("a", spec.T("string")), spec.P("n", spec.TF("integer", "int32")), spec.P("t", spec.TF("string", "date-time"))}, Required: []string{"a"}, Add: spec.T("string")},
		"arr":    spec.Arr(spec.Obj(spec.P("a", spec.T("string")), spec.P("z", spec.Arr(spec.T("number"))))),
		"map":    {Type: "object", Add: spec.Arr(spec.TF("integer", "int64"))},
		"nums":   spec.Arr(spec.TF("integer", "int32")),
		"any":    {},
		"str":    spec.T("string"),
	}
	for _, name := range spec.SortedKeys(bodyKinds) {
		s := &spec.Spec{}
		s.Comp.Schemas = []spec.NamedSchema{{Name: "Body", Schema: bodyKinds[name]}}
		s.Paths = []*spec.PathItem{{Template: "/b", Ops: []*spec.Op{{Method: "POST", Body: &spec.Body{Schema: spec.RefTo("Body"), Required: true}, Responses: okResp()}}},
			{Template: "/inline", Ops: []*spec.Op{{Method: "POST", Body: &spec.Body{Schema: bodyKinds[name], Required: true}, Responses: okResp()}}}}
		docs := []string{}
		for _, d := range refmodel.Docs(s, bodyKinds[name]) {
			docs = append(docs, d.JSON)
		}
		def := "null"
		if len(docs) > 0 {
			def = docs[0]
		}
		out = append(out, sink{name: "body-" + name, spec: s, ops: []drv.SinkOp{
			{Method: "POST", Path: "/b", Body: def, HasBody: true, Docs: docs, Headers: map[string]string{"Content-Type": "application/json"}},
			{Method: "POST", Path: "/inline", Body: def, HasBody: true, Docs: docs},
		}})
	}
	{ // oneOf / allOf through components
		s := &spec.Spec{}
		s.Comp.Schemas = []spec.NamedSchema{
			{Name: "Cat", Schema: spec.Obj(spec.P("kind", spec.T("string")), spec.P("a", spec.T("string"))).Req("kind")},
			{Name: "Dog", Schema: spec.Obj(spec.P("kind", spec.T("string")), spec.P("c", spec.TF("integer", "int32"))).Req("kind")},
			{Name: "Pet", Schema: &spec.Schema{OneOf: []*spec.Schema{spec.RefTo("Cat"), spec.RefTo("Dog")}, Disc: &spec.Disc{Prop: "kind", Mapping: map[string]string{"cat": "Cat", "dog": "Dog"}}}},
			{Name: "Either", Schema: &spec.Schema{OneOf: []*spec.Schema{spec.RefTo("Cat"), spec.RefTo("Dog")}}},
			{Name: "Both", Schema: &spec.Schema{AllOf: []*spec.Schema{spec.RefTo("Cat"), spec.Obj(spec.P("extra", spec.T("string")))}}},
		}
		var ops []drv.SinkOp
		for _, n := range []string{"Pet", "Either", "Both"} {
			s.Paths = append(s.Paths, &spec.PathItem{Template: "/" + n, Ops: []*spec.Op{{Method: "POST", Body: &spec.Body{Schema: spec.RefTo(n), Required: true}, Responses: okResp()}}})
			docs := []string{}
			for _, d := range refmodel.Docs(s, spec.RefTo(n)) {
				docs = append(docs, d.JSON)
			}
			ops = append(ops, drv.SinkOp{Method: "POST", Path: "/" + n, Body: docs[0], HasBody: true, Docs: docs})
		}
		out = append(out, sink{name: "body-composed", spec: s, ops: ops})
	}
	{ // raw body in
		s := &spec.Spec{}
		s.Paths = []*spec.PathItem{{Template: "/raw", Ops: []*spec.Op{{Method: "PUT", Body: &spec.Body{ContentType: "application/octet-stream", Schema: spec.TF("string", "binary")}, Responses: okResp()}}}}
		out = append(out, sink{name: "body-raw", spec: s, ops: []drv.SinkOp{{Method: "PUT", Path: "/raw", Body: "abc", HasBody: true}}})
	}
	// C: security alternatives, cors, explicit OPTIONS, spec file route
	{
		s := &spec.Spec{Servers: []spec.Server{{URL: "https://example.com/api"}}}
		s.Comp.Security = []spec.SecScheme{{Key: "b", Type: "http", Scheme: "bearer"}, {Key: "k", Type: "apiKey", In: "header", Name: "X-Key"}, {Key: "q", Type: "apiKey", In: "query", Name: "key"}}
		s.Security = &[]spec.SecReq{{"b"}}
		s.Paths = []*spec.PathItem{
			{Template: "/sec", Ops: []*spec.Op{{Method: "POST", Security: &[]spec.SecReq{{"b"}, {"k"}}, Responses: okResp()}, {Method: "GET", Security: &[]spec.SecReq{{"k"}, {"q"}, {"b"}}, Responses: okResp()}}},
			{Template: "/sec/{x}", Params: []*spec.Param{{Name: "x", In: "path", Required: true, Schema: spec.T("string")}}, Ops: []*spec.Op{{Method: "GET", Responses: okResp()}, {Method: "OPTIONS", Responses: okResp()}}},
			{Template: "/pub", Ops: []*spec.Op{{Method: "GET", Security: &[]spec.SecReq{}, Responses: okResp()}}},
		}
		out = append(out, sink{name: "security", spec: s, cors: true, cred: []string{"Authorization", "X-Key"}, ops: []drv.SinkOp{
			{Method: "POST", Path: "/api/sec", Headers: map[string]string{"Authorization": "Bearer good", "X-Key": "good"}},
			{Method: "GET", Path: "/api/sec", Query: "key=good", Headers: map[string]string{"Authorization": "Bearer good", "X-Key": "good"}, QNames: []string{"key", "key=good"}},
			{Method: "GET", Path: "/api/sec/zz", Headers: map[string]string{"Authorization": "Bearer good"}},
			{Method: "OPTIONS", Path: "/api/sec", Headers: map[string]string{"Authorization": "Bearer good"}},
			{Method: "GET", Path: "/api/pub"},
			{Method: "GET", Path: "/api/openapi.yaml"},
		}})
	}
	return out
}

func C14(run *report.Run) {
	env := NewEnv(false)
	defer env.Close()
	var states []BState
	pathLen, bodyLen, queryLen := 5, 4, 3
	if run.Tier == "thorough" {
		pathLen, bodyLen, queryLen = 6, 5, 4
	}
	for _, sk := range c14Sinks() {
		pl := &drv.SinkPayload{State: "sink:" + sk.name, Ops: sk.ops, PathAlpha: []string{"/", "a", "v", "1", "{"}, PathLen: pathLen, BodyLen: bodyLen, QueryLen: queryLen, Creds: sk.cred}
		states = append(states, BState{ID: "sink:" + sk.name, Attrs: map[string]string{"sink": sk.name}, Gen: &genrun.Job{Spec: sk.spec.YAML(), Cors: sk.cors}, Prop: "C14", Payload: pl})
	}
	st := RunBatch(run, env, states, 100)
	run.Cov["states"] = st.Healthy
	run.Cov["transitions"] = st.Counters["requests"]
	run.Cov["traces_validated_against_impl"] = st.Counters["requests"]
	dims := map[string]int64{}
	for k, v := range st.Counters {
		if len(k) > 4 && k[:4] == "dim:" {
			dims[k[4:]] = v
		}
	}
	run.Cov["requests_per_dimension"] = dims
	run.Cov["masked_states"] = st.Masked
	run.Cov["masked_why"] = st.MaskedWhy
	run.Cov["enumerated_states"] = st.States
	run.Cov["bounds"] = map[string]int{"path_len": pathLen, "body_tokens": bodyLen, "query_tokens": queryLen}
	run.Cov["rule"] = fmt.Sprintf("state = one kitchen-sink package (parameters / each JSON body kind / composed schemas / raw body / security+cors); for every target operation each request dimension is swept completely with the others at a valid default: method (7), path (all strings <= %d over {/,a,v,1,{} + single-byte deletions/doublings of declared paths), query (<= %d tokens over {x,=,&,%%,%%zz,;,+,declared names}), declared and credential headers (absent/empty/twice/64KiB/garbage), credential subsets, body (<= %d JSON tokens, schema-directed valid and single-fault documents, failing readers, 1 MiB nesting) and the pairs body×query, path×query; under all hooks installed and all hooks nil", pathLen, queryLen, bodyLen)
	run.Assumptions = []string{"requests are those a net/http server can deliver (Body non-nil)", "not a statement about all byte strings: bounded alphabets per dimension; the five-way product is not claimed"}
}
