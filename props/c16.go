package props

import (
	"verif/cells"
	"verif/drv"
	"verif/genrun"
	"verif/refmodel"
	"verif/report"
	"verif/spec"
)

func init() { Registry["C16"] = C16 }

func C16(run *report.Run) {
	env := NewEnv(false)
	defer env.Close()
	G, GP := []string{"GET"}, []string{"GET", "POST"}
	var rss []routeState
	none, v1 := cells.BaseFormByName("none"), cells.BaseFormByName("v1")
	d := 2
	if run.Tier == "thorough" {
		d = 3
	}
	for _, set := range templateSets(1, d, nil) {
		rss = append(rss, routeState{ts: mkTemplates(set, GP), base: none}, routeState{ts: mkTemplates(set, G), base: v1})
	}
	for _, set := range templateSets(2, 2, nil) {
		rss = append(rss, routeState{ts: mkTemplates(set, G, GP), base: none})
	}
	// literal segments with characters that URL escaping treats specially (as in C03)
	special := []string{"c++", "c  ", "c%2B%2B", "x", ""}
	for _, set := range [][]string{{"/c++/{x}", "/c++"}, {"/c++", "/{x}"}, {"/{x}/c++", "/{x}/{y}"}} {
		rss = append(rss, routeState{ts: mkTemplates(set, G, GP), base: none, segs: special})
	}
	// quick: pairs that reach depth 3 (a static segment recurring deeper in the sibling's subtree and the
	// like) without security and cors and with fewer stacks; thorough has them in full through d = 3
	nFull := len(rss)
	if run.Tier == "quick" {
		for _, set := range templateSets(2, 3, nil) {
			deep := false
			for _, t := range set {
				if len(refmodel.Segs(t)) == 3 {
					deep = true
				}
			}
			if deep {
				rss = append(rss, routeState{ts: mkTemplates(set, G, GP), base: none})
			}
		}
	}
	var states []BState
	for ri, rs := range rss {
		reduced := ri >= nFull
		for _, sec := range []bool{false, true} {
			for _, cors := range []bool{false, true} {
				rs, sec, cors := rs, sec, cors
				if cors && run.Tier == "quick" && len(rs.ts) == 2 && !sec {
					continue
				}
				if reduced && (sec || cors) {
					continue
				}
				b := routeBState(rs, "C16", func(pl *drv.RoutePayload, g *genrun.Job) {
					pl.Stacks = []int{0, 1, 2, 3, 4}
					if reduced {
						pl.Stacks = []int{0, 2}
					}
					pl.MaxDepth = 3
					pl.Prefixes = []string{rs.base.Want}
					pl.Methods = []string{"GET", "POST", "DELETE"}
					pl.Cors = cors
					g.Cors = cors
					if cors {
						pl.Methods = append(pl.Methods, "OPTIONS")
					}
					if sec {
						// the first operation of the first template demands bearer auth; the others are public
						sp := routeSpec(rs.ts, nil)
						if len(rs.base.Servers) > 0 {
							sp = cells.WithBase(sp, rs.base)
						}
						sp.Comp.Security = []spec.SecScheme{{Key: "b", Type: "http", Scheme: "bearer"}}
						sp.Paths[0].Ops[0].Security = &[]spec.SecReq{{"b"}}
						g.Spec = sp.YAML()
						// bearer is enforced per path item in this tree (C11 finding): mark what the spec says
						pl.Secured = map[string]bool{sp.Paths[0].Ops[0].Method + " " + rs.ts[0].Path: true}
					}
				})
				b.ID += ";sec=" + b01(sec) + ";cors=" + b01(cors)
				b.Attrs["sec"] = b01(sec)
				b.Attrs["cors"] = b01(cors)
				states = append(states, b)
			}
		}
	}
	st := RunBatch(run, env, states, 250)
	run.Cov["states"] = st.Healthy
	run.Cov["transitions"] = st.Counters["requests"]
	run.Cov["traces_validated_against_impl"] = st.Counters["requests"]
	run.Cov["outcome_classes"] = map[string]int64{"routed": st.Counters["routed"], "unrouted": st.Counters["unrouted"], "cors": st.Counters["cors"]}
	run.Cov["masked_states"] = st.Masked
	run.Cov["masked_why"] = st.MaskedWhy
	run.Cov["enumerated_states"] = st.States
	run.Cov["rule"] = "state = C03 template set × {first operation secured by bearer, none} × cors on/off; transition = one request (paths <=3 segments × methods × token absent/good/bad, plus the spec-file request) under middleware stacks of length 0..4 and custom/default not-found handler; oracle = exact enter/auth/handler/leave trace"
	_ = refmodel.Segs
}
