package props

import (
	"fmt"
	"sort"
	"strconv"
	"strings"

	"verif/cells"
	"verif/drv"
	"verif/genrun"
	"verif/report"
	"verif/spec"
)

func init() {
	Registry["C02"] = func(r *report.Run) { respFamily(r, "C02") }
	Registry["C10"] = func(r *report.Run) { respFamily(r, "C10") }
}

// respPayload derives the response model of a spec: per operation the documented responses, and the
// list of response objects with the operations documenting each.
func respPayload(s *spec.Spec, mode, id string) *drv.RespPayload {
	pl := &drv.RespPayload{State: id, Mode: mode, Spec: s}
	objs := map[string]map[string]bool{} // component root name -> ops
	rootOf := func(name string) string {
		for i := 0; i < 10; i++ {
			var r *spec.Response
			for _, x := range s.Comp.Responses {
				if x.Name == name {
					r = x.Response
				}
			}
			if r == nil || r.Ref == "" {
				return name
			}
			name = r.Ref
		}
		return name
	}
	for _, pi := range s.Paths {
		for _, o := range pi.Ops {
			ro := drv.RespOp{Method: o.Method, Path: pi.Template}
			key := o.Method + " " + pi.Template
			for _, r := range o.Responses {
				rr := s.ResolveResponse(r)
				if rr == nil {
					continue
				}
				rd := drv.RespDecl{Status: r.Status}
				if rr.ContentType != "" || rr.Schema != nil {
					ct := rr.ContentType
					if ct == "" {
						ct = "application/json"
					}
					// the JSON entry (if any) is the one described in full; the others are alternatives
					pct, psc := ct, rr.Schema
					var alts []string
					for _, a := range rr.Also {
						if a.ContentType == "application/json" && pct != "application/json" {
							alts = append(alts, pct)
							pct, psc = a.ContentType, a.Schema
						} else {
							alts = append(alts, a.ContentType)
						}
					}
					sort.Strings(alts)
					rd.ContentType, rd.AltTypes = pct, alts
					if pct == "application/json" {
						rd.Schema = psc
					} else {
						rd.Raw = true
					}
				}
				for _, h := range rr.Headers {
					rh := s.ResolveHeader(h)
					if rh == nil || rh.Schema == nil {
						continue
					}
					sc := s.Resolve(rh.Schema)
					d := drv.RespHeader{Name: h.Name, Required: rh.Required}
					if sc != nil && sc.Type == "array" {
						d.Array = true
						sc = s.Resolve(sc.Items)
					}
					if sc != nil {
						d.Type, d.Format = sc.Type, sc.Format
						if ext, ok := sc.Ext["x-goag-go-time-format"].(string); ok {
							if l, err := strconv.Unquote(ext); err == nil {
								d.Layout = l
							}
						}
						if d.Type == "string" && d.Format != "date-time" {
							d.Format = ""
						}
						if d.Format == "double" {
							d.Format = ""
						}
					}
					rd.Headers = append(rd.Headers, d)
				}
				ro.Responses = append(ro.Responses, rd)
				if r.Ref != "" {
					root := rootOf(r.Ref)
					if objs[root] == nil {
						objs[root] = map[string]bool{}
					}
					objs[root][key] = true
				} else {
					pl.Objects = append(pl.Objects, []string{key})
				}
			}
			pl.Ops = append(pl.Ops, ro)
		}
	}
	for _, root := range spec.SortedKeys(objs) {
		var l []string
		for k := range objs[root] {
			l = append(l, k)
		}
		sort.Strings(l)
		pl.Objects = append(pl.Objects, l)
	}
	return pl
}

func respCells(tier string) []cells.Cell {
	var out []cells.Cell
	out = append(out, cells.HeaderCells()...)
	out = append(out, cells.HeaderNameCells()...)
	for _, c := range cells.StatusCells() {
		if c.Attrs["fam"] == "status" {
			out = append(out, c)
		}
	}
	for _, c := range cells.RespSetCells() {
		if c.Attrs["site"] != "reqbody" {
			out = append(out, c)
		}
	}
	k2 := map[string]bool{}
	for _, k := range cells.K2Names {
		k2[k] = true
	}
	for _, k := range []string{"boolean", "number", "any", "map<string>", "array<object>", "object+addtrue"} {
		k2[k] = true
	}
	for _, c := range cells.SchemaCells() {
		if c.Attrs["pos"] != "respbody" || c.Attrs["null"] == "1" {
			continue
		}
		if tier == "quick" && (!k2[c.Attrs["kind"]] || c.Attrs["form"] == "alias") {
			continue
		}
		out = append(out, c)
	}
	// several responses per operation, components shared between operations and statuses
	obj := func() *spec.Schema {
		return spec.Obj(spec.P("a", spec.T("string")), spec.P("b", spec.TF("integer", "int32"))).Req("a")
	}
	ok := func() []*spec.Response { return []*spec.Response{{Status: "default", Desc: "d"}} }
	mk := func(name string, build func(s *spec.Spec)) {
		s := &spec.Spec{}
		build(s)
		out = append(out, cells.NewCell("respshare", map[string]string{"shape": name}, s))
	}
	comp := func(s *spec.Spec, alias bool) {
		s.Comp.Responses = []spec.NamedResponse{{Name: "Shared", Response: &spec.Response{Desc: "r", Schema: obj(), Headers: []*spec.Header{{Name: "X-S", Schema: spec.T("string")}}}}}
		if alias {
			s.Comp.Responses = append(s.Comp.Responses, spec.NamedResponse{Name: "SharedAlias", Response: &spec.Response{Ref: "Shared"}})
		}
	}
	mk("four-responses", func(s *spec.Spec) {
		comp(s, false)
		s.Paths = []*spec.PathItem{{Template: "/p", Ops: []*spec.Op{{Method: "GET", Responses: []*spec.Response{{Status: "200", Desc: "r", Schema: obj()}, {Status: "201", Desc: "r"}, {Status: "404", Ref: "Shared"}, {Status: "default", Desc: "d", Schema: obj()}}}}}}
	})
	mk("two-ops-same-status", func(s *spec.Spec) {
		comp(s, false)
		s.Paths = []*spec.PathItem{{Template: "/p", Ops: []*spec.Op{{Method: "GET", Responses: []*spec.Response{{Status: "404", Ref: "Shared"}, {Status: "default", Desc: "d"}}}, {Method: "POST", Responses: []*spec.Response{{Status: "404", Ref: "Shared"}, {Status: "200", Desc: "r"}}}}}}
	})
	mk("two-ops-different-status", func(s *spec.Spec) {
		comp(s, false)
		s.Paths = []*spec.PathItem{{Template: "/p", Ops: []*spec.Op{{Method: "GET", Responses: []*spec.Response{{Status: "200", Ref: "Shared"}}}, {Method: "POST", Responses: []*spec.Response{{Status: "201", Ref: "Shared"}, {Status: "default", Desc: "d"}}}}},
			{Template: "/q", Ops: []*spec.Op{{Method: "GET", Responses: ok()}}}}
	})
	mk("three-ops-via-alias", func(s *spec.Spec) {
		comp(s, true)
		s.Paths = []*spec.PathItem{{Template: "/p", Ops: []*spec.Op{{Method: "GET", Responses: []*spec.Response{{Status: "200", Ref: "Shared"}}}, {Method: "POST", Responses: []*spec.Response{{Status: "201", Ref: "SharedAlias"}}}}},
			{Template: "/q/", Ops: []*spec.Op{{Method: "GET", Responses: []*spec.Response{{Status: "202", Ref: "SharedAlias"}, {Status: "default", Desc: "d"}}}}}}
	})
	mk("trailing-slash-sibling", func(s *spec.Spec) {
		comp(s, false)
		s.Paths = []*spec.PathItem{{Template: "/pets", Ops: []*spec.Op{{Method: "GET", Responses: []*spec.Response{{Status: "200", Desc: "r", Schema: obj()}}}}},
			{Template: "/pets/", Ops: []*spec.Op{{Method: "GET", Responses: []*spec.Response{{Status: "404", Ref: "Shared"}, {Status: "200", Desc: "r"}}}}},
			{Template: "/a/b/", Ops: []*spec.Op{{Method: "GET", Responses: []*spec.Response{{Status: "404", Ref: "Shared"}}}}}}
	})
	mk("one-op-two-statuses", func(s *spec.Spec) {
		comp(s, false)
		s.Paths = []*spec.PathItem{{Template: "/p", Ops: []*spec.Op{{Method: "GET", Responses: []*spec.Response{{Status: "200", Ref: "Shared"}, {Status: "404", Ref: "Shared"}}}}}}
	})
	mk("default-and-number", func(s *spec.Spec) {
		comp(s, false)
		s.Paths = []*spec.PathItem{{Template: "/p", Ops: []*spec.Op{{Method: "GET", Responses: []*spec.Response{{Status: "200", Ref: "Shared"}}}, {Method: "POST", Responses: []*spec.Response{{Status: "default", Ref: "Shared"}}}}}}
	})
	mk("default-component-two-ops", func(s *spec.Spec) {
		comp(s, false)
		s.Paths = []*spec.PathItem{{Template: "/p", Ops: []*spec.Op{{Method: "GET", Responses: []*spec.Response{{Status: "default", Ref: "Shared"}}}, {Method: "POST", Responses: []*spec.Response{{Status: "default", Ref: "Shared"}, {Status: "200", Desc: "r"}}}}}}
	})
	mk("one-op-component-and-alias", func(s *spec.Spec) {
		comp(s, true)
		s.Paths = []*spec.PathItem{{Template: "/p", Ops: []*spec.Op{{Method: "GET", Responses: []*spec.Response{{Status: "200", Ref: "Shared"}, {Status: "201", Ref: "SharedAlias"}}}}}}
	})
	mk("three-ops-aba", func(s *spec.Spec) {
		// one component at the statuses 400, 409, 400 of three operations in path/method order
		comp(s, false)
		s.Paths = []*spec.PathItem{{Template: "/a", Ops: []*spec.Op{{Method: "GET", Responses: []*spec.Response{{Status: "400", Ref: "Shared"}, {Status: "200", Desc: "r"}}}}},
			{Template: "/b", Ops: []*spec.Op{{Method: "GET", Responses: []*spec.Response{{Status: "409", Ref: "Shared"}, {Status: "200", Desc: "r"}}}}},
			{Template: "/c", Ops: []*spec.Op{{Method: "GET", Responses: []*spec.Response{{Status: "400", Ref: "Shared"}, {Status: "200", Desc: "r"}}}}}}
	})
	mk("header-component-under-three-names", func(s *spec.Spec) {
		// one components.headers entry used under different header names by a component response and two inline ones
		s.Comp.Headers = []spec.NamedHeader{{Name: "Counter", Header: &spec.Header{Schema: spec.TF("integer", "int32")}}}
		s.Comp.Responses = []spec.NamedResponse{{Name: "Slow", Response: &spec.Response{Desc: "r", Headers: []*spec.Header{{Name: "Retry-After", Ref: "Counter"}}}}}
		s.Paths = []*spec.PathItem{{Template: "/p", Ops: []*spec.Op{{Method: "GET", Responses: []*spec.Response{
			{Status: "200", Desc: "r", Headers: []*spec.Header{{Name: "X-Total-Count", Ref: "Counter"}}},
			{Status: "202", Desc: "r", Headers: []*spec.Header{{Name: "X-Queue-Length", Ref: "Counter"}}},
			{Status: "429", Ref: "Slow"}}}}}}
	})
	mk("header-component-twice-in-one-response", func(s *spec.Spec) {
		s.Comp.Headers = []spec.NamedHeader{{Name: "Counter", Header: &spec.Header{Schema: spec.TF("integer", "int32")}}}
		s.Paths = []*spec.PathItem{{Template: "/p", Ops: []*spec.Op{{Method: "GET", Responses: []*spec.Response{
			{Status: "200", Desc: "r", Headers: []*spec.Header{{Name: "X-Queue-Length", Ref: "Counter"}, {Name: "X-Total-Count", Ref: "Counter"}}},
			{Status: "default", Desc: "d", Headers: []*spec.Header{{Name: "X-Total-Count", Ref: "Counter"}}}}}}}}
	})
	mk("array-headers", func(s *spec.Spec) {
		s.Comp.Headers = []spec.NamedHeader{{Name: "Ids", Header: &spec.Header{Schema: spec.Arr(spec.TF("integer", "int64"))}}}
		s.Paths = []*spec.PathItem{{Template: "/p", Ops: []*spec.Op{{Method: "GET", Responses: []*spec.Response{{Status: "200", Desc: "r", Headers: []*spec.Header{{Name: "X-Tags", Required: true, Schema: spec.Arr(spec.T("string"))}, {Name: "X-Ids", Ref: "Ids"}, {Name: "X-One", Schema: spec.T("string")}}},
			{Status: "default", Desc: "d", ContentType: "text/plain", Schema: spec.T("string"), Headers: []*spec.Header{{Name: "X-At", Required: true, Schema: spec.TF("string", "date-time")}}}}}}}}
	})
	mk("raw-bodies", func(s *spec.Spec) {
		s.Paths = []*spec.PathItem{{Template: "/p", Ops: []*spec.Op{{Method: "GET", Responses: []*spec.Response{{Status: "200", Desc: "r", ContentType: "application/octet-stream", Schema: spec.TF("string", "binary"), Headers: []*spec.Header{{Name: "X-Len", Required: true, Schema: spec.TF("integer", "int32")}}},
			{Status: "404", Desc: "r", Schema: obj()}, {Status: "default", Desc: "d", ContentType: "text/plain", Schema: spec.T("string")}}}}}}
	})
	// goag's private time-layout extension on JSON body properties: a lossless layout that is not RFC 3339
	// (space for "T"), so a server and a client that disagree about which layout applies cannot round-trip.
	// Own family and C10 only: the other response checks inject RFC 3339 answers, which this layout rejects
	// by the user's choice, not by a defect of goag.
	{
		s := &spec.Spec{}
		lay := func() *spec.Schema {
			t := spec.TF("string", "date-time")
			t.Ext = map[string]any{"x-goag-go-time-format": `"2006-01-02 15:04:05.999999999Z07:00"`}
			return t
		}
		s.Comp.Schemas = []spec.NamedSchema{{Name: "Stamp", Schema: spec.Obj(spec.P("at", lay()), spec.P("opt", lay()), spec.P("plain", spec.TF("string", "date-time"))).Req("at")}}
		s.Paths = []*spec.PathItem{{Template: "/p", Ops: []*spec.Op{{Method: "GET", Responses: []*spec.Response{
			{Status: "200", Desc: "r", Schema: spec.Obj(spec.P("at", lay()), spec.P("n", spec.TF("integer", "int32"))).Req("at"),
				Headers: []*spec.Header{{Name: "X-At", Required: true, Schema: lay()}, {Name: "X-Opt-At", Schema: lay()}, {Name: "X-Plain-At", Schema: spec.TF("string", "date-time")}}},
			{Status: "404", Desc: "r", Schema: spec.RefTo("Stamp")},
			{Status: "default", Desc: "d", Schema: spec.Arr(spec.RefTo("Stamp"))}}}}}}
		out = append(out, cells.NewCell("resplayout", map[string]string{"shape": "body-time-layout", "only": "C10"}, s))
	}
	return out
}

func respFamily(run *report.Run, mode string) {
	env := NewEnv(false)
	defer env.Close()
	var states []BState
	for _, c := range respCells(run.Tier) {
		if c.Attrs["only"] != "" && c.Attrs["only"] != mode {
			continue
		}
		pl := respPayload(c.Spec, mode, c.ID)
		jp := &drv.JSONPayload{}
		jsonDiscInfo(c.Spec, jp)
		pl.DiscProp, pl.VariantKeys = jp.DiscProp, jp.VariantKeys
		states = append(states, BState{ID: c.ID, Attrs: c.Attrs, Gen: &genrun.Job{Spec: c.Spec.YAML(), Client: mode == "C10"}, Prop: mode, Payload: pl})
	}
	st := RunBatch(run, env, states, 250)
	run.Cov["states"] = st.Healthy
	tr := st.Counters["responses"] + st.Counters["injected"] + st.Counters["implementer-sets"]
	run.Cov["transitions"] = tr
	run.Cov["traces_validated_against_impl"] = tr
	run.Cov["counters"] = st.Counters
	run.Cov["masked_states"] = st.Masked
	run.Cov["masked_why"] = st.MaskedWhy
	run.Cov["enumerated_states"] = st.States
	if mode == "C02" {
		run.Cov["rule"] = "state = one spec of the response matrix (response header kinds × required × inline/component × status/default × body; status × content kinds; JSON body kind × form × status × inline/component/alias; multi-response operations and components shared between operations, statuses and aliases), compiled; static transition = the exact set of types implementing each operation's response interface (reflection over every named type) compared as a multiset with the documented response objects; dynamic transition = one response value (constructor arguments over small domains, <= 150 per constructor) returned by a handler and written through API.ServeHTTP: status, Content-Type, headers (reference lexer), body (conformance walker / raw bytes), exactly one WriteHeader"
	} else {
		run.Cov["rule"] = "same response matrix with the client; (i) every response value returned by the handler comes back from Client.<Op> as the same kind with equal code, headers and body through a transport whose body fails reads after Close; (ii) injected answers at the HTTPClient seam: 10 status codes × {valid, empty, other-shape, truncated, failing-reader} bodies × required/declared headers {present, absent, unparsable, twice}: undocumented status -> default response with that code or an error, never another documented kind; undecodable documented body or missing required header -> error, never a zero-valued success"
	}
	_ = fmt.Sprint
	_ = strings.Join
}
