package props

import (
	"bytes"
	"context"
	"encoding/json"
	"fmt"
	"os"
	"os/exec"
	"path/filepath"
	"regexp"
	"sort"
	"strconv"
	"strings"
	"time"

	"github.com/ghodss/yaml"

	"verif/cells"
	"verif/genrun"
	"verif/report"
	"verif/spec"
)

func init() { Registry["C15"] = C15 }

type c15mut struct {
	doc     string // corpus document name
	ptr     []string
	kind    string
	desc    string
	mutated any
	refName string // for $ref mutations: the new target name
}

func ptrString(p []string) string {
	var b strings.Builder
	for _, t := range p {
		b.WriteString("/")
		b.WriteString(strings.ReplaceAll(strings.ReplaceAll(t, "~", "~0"), "/", "~1"))
	}
	return b.String()
}

func deepCopy(v any) any {
	switch x := v.(type) {
	case map[string]any:
		m := make(map[string]any, len(x))
		for k, e := range x {
			m[k] = deepCopy(e)
		}
		return m
	case []any:
		l := make([]any, len(x))
		for i, e := range x {
			l[i] = deepCopy(e)
		}
		return l
	}
	return v
}

// setAt returns a copy of root with the node at ptr replaced (del=true: removed).
func setAt(root any, ptr []string, val any, del bool) any {
	root = deepCopy(root)
	if len(ptr) == 0 {
		return val
	}
	cur := root
	for i, t := range ptr {
		last := i == len(ptr)-1
		switch x := cur.(type) {
		case map[string]any:
			if last {
				if del {
					delete(x, t)
				} else {
					x[t] = val
				}
				return root
			}
			cur = x[t]
		case []any:
			idx, _ := strconv.Atoi(t)
			if last {
				if !del {
					x[idx] = val
					return root
				}
				// deletion from a list: rebuild the parent
				parent := append(append([]any{}, x[:idx]...), x[idx+1:]...)
				return setAt(root, ptr[:len(ptr)-1], parent, false)
			}
			cur = x[idx]
		default:
			return root
		}
	}
	return root
}

func jsonType(v any) string {
	switch v.(type) {
	case nil:
		return "null"
	case map[string]any:
		return "map"
	case []any:
		return "list"
	case string:
		return "string"
	case bool:
		return "bool"
	default:
		return "number"
	}
}

var c15Types = []string{"string", "integer", "number", "boolean", "array", "object", "null", "foo"}
var c15Formats = []string{"uuid", "int", "int8", "float", "double", "int32", "int64", "date", "date-time", "binary", "byte", "email", "foo"}

// c15Mutants enumerates every single structural mutation of a document.
func c15Mutants(name string, root any) []c15mut {
	var out []c15mut
	add := func(ptr []string, kind, desc string, doc any, ref string) {
		out = append(out, c15mut{doc: name, ptr: append([]string{}, ptr...), kind: kind, desc: desc, mutated: doc, refName: ref})
	}
	compClass := func(ref string) string {
		parts := strings.Split(ref, "/")
		if len(parts) >= 4 {
			return strings.Join(parts[:3], "/")
		}
		return "#/components/schemas"
	}
	var walk func(v any, ptr []string)
	walk = func(v any, ptr []string) {
		if len(ptr) > 0 {
			key := ptr[len(ptr)-1]
			add(ptr, "delete", "delete "+ptrString(ptr), setAt(root, ptr, nil, true), "")
			if v != nil {
				add(ptr, "null", "null at "+ptrString(ptr), setAt(root, ptr, nil, false), "")
			}
			for _, alt := range []any{"x", float64(7), true, []any{}, map[string]any{}} {
				if jsonType(alt) != jsonType(v) {
					add(ptr, "retype-"+jsonType(alt), fmt.Sprintf("%s: %s -> %s", ptrString(ptr), jsonType(v), jsonType(alt)), setAt(root, ptr, alt, false), "")
				}
			}
			// emptied containers (e.g. `security: [{}]`, `responses: {}`, `parameters: []`)
			if m, ok := v.(map[string]any); ok && len(m) > 0 {
				add(ptr, "empty-map", ptrString(ptr)+" = {}", setAt(root, ptr, map[string]any{}, false), "")
			}
			if l, ok := v.([]any); ok && len(l) > 0 {
				add(ptr, "empty-list", ptrString(ptr)+" = []", setAt(root, ptr, []any{}, false), "")
				add(ptr, "prepend-empty-map", ptrString(ptr)+" = [{}, ...]", setAt(root, ptr, append([]any{map[string]any{}}, l...), false), "")
			}
			if s, ok := v.(string); ok {
				switch key {
				case "$ref":
					cls := compClass(s)
					add(ptr, "ref-missing", ptrString(ptr)+" -> missing", setAt(root, ptr, cls+"/Missing", false), "Missing")
					if len(ptr) >= 3 && ptr[0] == "components" {
						self := "#/" + strings.Join(ptr[:3], "/")
						add(ptr, "ref-self", ptrString(ptr)+" -> "+self, setAt(root, ptr, self, false), ptr[2])
					}
					add(ptr, "ref-external", ptrString(ptr)+" -> other file", setAt(root, ptr, "other.yaml"+s, false), "other.yaml")
				case "type":
					for _, t := range c15Types {
						if t != s {
							add(ptr, "type-"+t, ptrString(ptr)+" = "+t, setAt(root, ptr, t, false), "")
						}
					}
					if len(ptr) >= 2 {
						// type without sibling keys it needs / with format that does not belong
						par := ptr[:len(ptr)-1]
						add(par, "add-format-foo", ptrString(par)+" + format foo", setAt(root, append(append([]string{}, par...), "format"), "foo", false), "")
					}
				case "format":
					for _, t := range c15Formats {
						if t != s {
							add(ptr, "format-"+t, ptrString(ptr)+" = "+t, setAt(root, ptr, t, false), "")
						}
					}
				case "in":
					for _, t := range []string{"query", "header", "path", "cookie", "body"} {
						if t != s {
							add(ptr, "in-"+t, ptrString(ptr)+" = "+t, setAt(root, ptr, t, false), "")
						}
					}
				}
			}
		}
		switch x := v.(type) {
		case map[string]any:
			// a schema-like object replaced by a reference to one of its ancestors (cycle through a
			// pointer that is not a component) or to a sibling-level non-component pointer
			_, hasType := x["type"]
			_, hasRef := x["$ref"]
			if (hasType || hasRef) && len(ptr) >= 3 {
				for up := 1; up <= 3 && len(ptr)-up >= 2; up++ {
					anc := ptr[:len(ptr)-up]
					add(ptr, fmt.Sprintf("ref-ancestor-%d", up), ptrString(ptr)+" -> #"+ptrString(anc), setAt(root, ptr, map[string]any{"$ref": "#" + ptrString(anc)}, false), anc[len(anc)-1])
				}
			}
			// a composed or object schema gains a `required` list naming a property it does not declare itself
			// (it may be declared by an allOf member, or by nobody)
			if _, isAllOf := x["allOf"]; isAllOf || x["type"] == "object" {
				if _, has := x["required"]; !has && len(ptr) >= 1 {
					add(ptr, "add-required", ptrString(ptr)+" + required [zz]", setAt(root, append(append([]string{}, ptr...), "required"), []any{"zz"}, false), "")
				}
			}
			if sc, ok := x["schema"]; ok {
				if _, isParam := x["in"]; isParam {
					m := deepCopy(x).(map[string]any)
					delete(m, "schema")
					m["content"] = map[string]any{"application/json": map[string]any{"schema": deepCopy(sc)}}
					add(ptr, "param-content", ptrString(ptr)+": schema moved under content", setAt(root, ptr, m, false), "")
				}
			}
			if _, ok := x["default"]; ok && len(ptr) >= 2 && ptr[len(ptr)-2] == "variables" {
				for _, alt := range []any{float64(7), true, []any{"a"}} {
					add(append(append([]string{}, ptr...), "default"), "var-default-"+jsonType(alt), ptrString(ptr)+"/default non-string", setAt(root, append(append([]string{}, ptr...), "default"), alt, false), "")
				}
				// a default that mentions its own (or another) variable
				self := "{" + ptr[len(ptr)-1] + "}"
				add(append(append([]string{}, ptr...), "default"), "var-default-self", ptrString(ptr)+"/default = "+self, setAt(root, append(append([]string{}, ptr...), "default"), self, false), "")
				add(append(append([]string{}, ptr...), "default"), "var-default-selfx", ptrString(ptr)+"/default = x"+self, setAt(root, append(append([]string{}, ptr...), "default"), "x"+self, false), "")
			}
			// two server variables whose defaults mention each other
			if len(ptr) >= 1 && ptr[len(ptr)-1] == "variables" && len(x) >= 2 {
				ns := spec.SortedKeys(x)
				a, b := ns[0], ns[1]
				d := setAt(root, append(append([]string{}, ptr...), a, "default"), "{"+b+"}", false)
				d = setAt(d, append(append([]string{}, ptr...), b, "default"), "{"+a+"}", false)
				add(append(append([]string{}, ptr...), a), "var-default-cycle", ptrString(ptr)+": "+a+" <-> "+b, d, "")
			}
			for _, k := range spec.SortedKeys(x) {
				walk(x[k], append(ptr, k))
			}
		case []any:
			for i, e := range x {
				walk(e, append(ptr, strconv.Itoa(i)))
			}
		}
	}
	walk(root, nil)
	// 2-cycles between schema components
	if comps, ok := get(root, "components", "schemas").(map[string]any); ok {
		ns := spec.SortedKeys(comps)
		for i, a := range ns {
			for _, b := range ns[i+1:] {
				d := setAt(root, []string{"components", "schemas", a}, map[string]any{"$ref": "#/components/schemas/" + b}, false)
				d = setAt(d, []string{"components", "schemas", b}, map[string]any{"$ref": "#/components/schemas/" + a}, false)
				add([]string{"components", "schemas", a}, "ref-2cycle", a+" <-> "+b, d, a)
			}
		}
	}
	return out
}

func get(v any, path ...string) any {
	for _, p := range path {
		m, ok := v.(map[string]any)
		if !ok {
			return nil
		}
		v = m[p]
	}
	return v
}

var c15Generic = map[string]bool{"paths": true, "components": true, "schemas": true, "properties": true, "parameters": true, "responses": true,
	"content": true, "schema": true, "items": true, "requestBody": true, "requestBodies": true, "headers": true, "application/json": true,
	"securitySchemes": true, "security": true, "servers": true, "variables": true, "info": true, "openapi": true, "tags": true,
	"additionalProperties": true, "allOf": true, "oneOf": true, "anyOf": true, "discriminator": true, "mapping": true,
	"$ref": true, "type": true, "format": true, "in": true, "name": true, "required": true, "nullable": true, "description": true,
	"default": true, "url": true, "title": true, "version": true, "summary": true, "operationId": true, "scheme": true, "bearerFormat": true,
	"flows": true, "enum": true, "example": true, "examples": true, "license": true, "propertyName": true, "deprecated": true,
	"minimum": true, "maximum": true, "minLength": true, "maxLength": true, "pattern": true, "minItems": true, "maxItems": true, "uniqueItems": true,
	"readOnly": true, "writeOnly": true, "explode": true, "style": true, "x-goag-go-type": true, "externalDocs": true, "contact": true, "termsOfService": true}

// locators: the specific (non-structural) tokens of the pointer path, plus the names of
// parameters / schemes found on the way.
func c15Locators(root any, m *c15mut) []string {
	var out []string
	cur := root
	for k, t := range m.ptr {
		if _, err := strconv.Atoi(t); err != nil && !c15Generic[t] {
			out = append(out, t)
		} else if k == 2 && m.ptr[0] == "components" {
			// a component named like a keyword ("type") is still a name: require it quoted
			out = append(out, strconv.Quote(t))
		}
		switch x := cur.(type) {
		case map[string]any:
			cur = x[t]
		case []any:
			i, _ := strconv.Atoi(t)
			if i < len(x) {
				cur = x[i]
			} else {
				cur = nil
			}
		}
		if mm, ok := cur.(map[string]any); ok {
			if n, ok := mm["name"].(string); ok {
				out = append(out, n)
			}
		}
	}
	if m.refName != "" {
		out = append(out, m.refName)
	}
	// a problem inside a component may be reported where the component is used: the path templates
	// whose subtree reaches the component through references locate it as well
	if len(m.ptr) >= 3 && m.ptr[0] == "components" {
		target := "#/components/" + m.ptr[1] + "/" + m.ptr[2]
		if doc, ok := root.(map[string]any); ok {
			if paths, ok := doc["paths"].(map[string]any); ok {
				for tpl, item := range paths {
					if c15Reaches(doc, item, target, map[string]bool{}) {
						out = append(out, tpl)
					}
				}
			}
		}
	}
	return out
}

// c15Reaches: does the subtree v reach the component `target` by following $ref values?
func c15Reaches(doc map[string]any, v any, target string, seen map[string]bool) bool {
	switch x := v.(type) {
	case map[string]any:
		if r, ok := x["$ref"].(string); ok {
			if r == target {
				return true
			}
			if !seen[r] && strings.HasPrefix(r, "#/") {
				seen[r] = true
				var cur any = doc
				for _, t := range strings.Split(r[2:], "/") {
					mm, ok := cur.(map[string]any)
					if !ok {
						cur = nil
						break
					}
					cur = mm[strings.NewReplacer("~1", "/", "~0", "~").Replace(t)]
				}
				if c15Reaches(doc, cur, target, seen) {
					return true
				}
			}
		}
		for _, c := range x {
			if c15Reaches(doc, c, target, seen) {
				return true
			}
		}
	case []any:
		for _, c := range x {
			if c15Reaches(doc, c, target, seen) {
				return true
			}
		}
	}
	return false
}

var reGoagFrame = regexp.MustCompile(`github\.com/vkd/goag(?:/[a-z]+)*\.(\(?\*?[A-Za-z0-9_\[\].]+\)?(?:\.[A-Za-z0-9_]+)*)\(`)

// panicFrame returns the innermost goag function on a panic stack.
func panicFrame(stack string) string {
	// skip the frames of the recover handler itself (genrun)
	idx := strings.Index(stack, "panic(")
	if idx >= 0 {
		stack = stack[idx:]
	}
	if m := reGoagFrame.FindStringSubmatch(stack); m != nil {
		return m[1]
	}
	return "?"
}

func C15(run *report.Run) {
	env := NewEnv(true)
	defer env.Close()
	// corpus: repository specs + the level-1 cell corpus (thorough: a spread of it)
	type doc struct {
		name string
		root any
		size int
	}
	var docs []doc
	for n, bs := range fixtureSpecs() {
		js, err := yaml.YAMLToJSON(bs)
		if err != nil {
			continue
		}
		var root any
		if json.Unmarshal(js, &root) != nil {
			continue
		}
		docs = append(docs, doc{n, root, len(js)})
	}
	sort.Slice(docs, func(i, j int) bool {
		if docs[i].size != docs[j].size {
			return docs[i].size < docs[j].size
		}
		return docs[i].name < docs[j].name
	})
	if run.Tier == "quick" && len(docs) > 12 {
		docs = docs[:12]
	}
	cs := C01Cells()
	step := 40
	if run.Tier == "thorough" {
		step = 7
	}
	for i := 0; i < len(cs); i += step {
		var root any
		if json.Unmarshal(cs[i].Spec.YAML(), &root) == nil {
			docs = append(docs, doc{"cell:" + cs[i].ID, root, 0})
		}
	}
	// forward / backward references between components are part of the corpus in every tier
	for _, c := range cells.RefOrderCells() {
		var root any
		if json.Unmarshal(c.Spec.YAML(), &root) == nil {
			docs = append(docs, doc{"cell:" + c.ID, root, 0})
		}
	}
	// a server variable with an enum
	{
		var root any
		src := `{"openapi":"3.0.3","info":{"title":"t","version":"1"},"servers":[{"url":"https://example.com:{port}/{bp}","variables":{"port":{"default":"8443","enum":["8443","443"]},"bp":{"default":"v1","enum":["v1","v2"]}}}],"paths":{"/p":{"get":{"responses":{"default":{"description":"d"}}}}}}`
		if json.Unmarshal([]byte(src), &root) == nil {
			docs = append(docs, doc{"base:vars-enum", root, 0})
		}
	}
	// documents with servers (and server variables) are part of the corpus in every tier
	for _, b := range cells.BaseForms {
		if len(b.Servers) == 0 {
			continue
		}
		base, _, _ := cells.Base()
		var root any
		if json.Unmarshal(cells.WithBase(base, b).YAML(), &root) == nil {
			docs = append(docs, doc{"base:" + b.Name, root, 0})
		}
	}
	{
		base, _, _ := cells.Base()
		base.Servers = []spec.Server{{URL: "https://example.com/{a}/{b}", Vars: map[string]string{"a": "x", "b": "{a}"}}}
		var root any
		if json.Unmarshal(base.YAML(), &root) == nil {
			docs = append(docs, doc{"base:vars-nested", root, 0})
		}
	}
	var muts []c15mut
	seenDoc := map[string]bool{}
	for _, d := range docs {
		for _, m := range c15Mutants(d.name, d.root) {
			bs := spec.MarshalDoc(m.mutated)
			k := string(bs)
			if seenDoc[k] {
				continue
			}
			seenDoc[k] = true
			muts = append(muts, m)
		}
	}
	roots := map[string]any{}
	for _, d := range docs {
		roots[d.name] = d.root
	}
	jobs := make([]*genrun.Job, len(muts))
	for i, m := range muts {
		id := fmt.Sprintf("m%07d", i)
		jobs[i] = &genrun.Job{ID: id, Spec: spec.MarshalDoc(m.mutated), OutDir: filepath.Join(env.Scratch, "gen", id), Package: "gen", Client: i%2 == 0}
	}
	outcomes := map[string]int{}
	kinds := map[string]int{}
	var judged int64
	var cliSet []int
	results := make([]*genrun.Result, len(muts))
	env.Pool.RunAll(jobs, func(j *genrun.Job, r *genrun.Result) {
		var i int
		fmt.Sscanf(j.ID, "m%d", &i)
		m := &muts[i]
		results[i] = r
		os.RemoveAll(j.OutDir)
		kinds[m.kind]++
		state := m.doc + " :: " + m.desc
		switch r.Outcome {
		case "internal":
			internal("%s: %s", state, r.Msg)
		case genrun.LoadRejected:
			outcomes["load-rejected"]++
			return
		case genrun.Success:
			outcomes["success"]++
			judged++
			// success means the package was generated: the files the options call for exist
			if missing, _ := expectedFiles(r.Files, j.Client); len(missing) > 0 && !j.NoAPI {
				run.Violate(&report.Violation{Attrs: map[string]string{"class": "success-without-output", "mutation": m.kind, "missing": strings.Join(missing, ",")}, State: state,
					Observed: "the generator reported success but did not write " + strings.Join(missing, ", "), Expected: "success with the generated package, or an error", Detail: map[string]any{"job": j}})
			}
		case genrun.GenError:
			outcomes["error"]++
			judged++
			locs := c15Locators(m.mutated, m)
			if strings.TrimSpace(r.Msg) == "" {
				run.Violate(&report.Violation{Attrs: map[string]string{"class": "empty-error", "mutation": m.kind}, State: state, Observed: "error with empty message", Detail: map[string]any{"job": j}})
			} else if len(locs) > 0 {
				found := false
				lm := strings.ToLower(r.Msg)
				for _, l := range locs {
					if strings.Contains(lm, strings.ToLower(l)) {
						found = true
					}
				}
				if !found {
					run.Violate(&report.Violation{Attrs: map[string]string{"class": "error-without-locator", "mutation": m.kind, "errclass": c15ErrClass(r.Msg)},
						State: state, Observed: "error: " + r.Msg, Expected: fmt.Sprintf("an error naming where the problem is (one of %q)", locs), Detail: map[string]any{"job": j}})
				}
			}
		case genrun.GenPanic:
			outcomes["panic"]++
			judged++
			fr := panicFrame(r.Stack)
			run.Violate(&report.Violation{Attrs: map[string]string{"class": "panic", "frame": fr, "panicclass": DiagClass(stripQuoted(r.Msg))}, State: state,
				Observed: "panic: " + r.Msg + " in " + fr, Expected: "success or an error", Detail: map[string]any{"job": j, "stack": r.Stack}})
			cliSet = append(cliSet, i)
		case genrun.GenHang:
			outcomes["hang"]++
			judged++
			run.Violate(&report.Violation{Attrs: map[string]string{"class": "hang", "mutation": m.kind}, State: state,
				Observed: "the generator did not terminate: " + r.Msg, Expected: "success or an error", Detail: map[string]any{"job": j}})
		case genrun.GenFatal:
			if strings.Contains(r.Stack, "github.com/vkd/goag/specification") || strings.Contains(r.Stack, "github.com/vkd/goag/generator") || strings.Contains(r.Stack, "github.com/vkd/goag.") {
				outcomes["fatal"]++
				judged++
				fr := panicFrame(r.Stack)
				run.Violate(&report.Violation{Attrs: map[string]string{"class": "fatal", "frame": fr, "panicclass": DiagClass(firstLineOf(r.Msg))}, State: state,
					Observed: "process died: " + firstLineOf(r.Msg) + " in " + fr, Expected: "success or an error", Detail: map[string]any{"job": j, "stack": trunc(r.Stack, 3000)}})
				cliSet = append(cliSet, i)
			} else {
				outcomes["loader-fatal"]++
			}
		}
		if i%1499 == 0 {
			run.Sample(map[string]any{"doc": m.doc, "mutation": m.desc, "outcome": r.Outcome, "msg": trunc(r.Msg, 160)})
		}
	})
	// the real CLI on a deterministic subset and on every crashing mutant: exit status and stderr
	for i := 0; i < len(muts); i += max(1, len(muts)/150) {
		cliSet = append(cliSet, i)
	}
	c15CLI(run, env, muts, jobs, results, cliSet)
	run.Cov["states"] = len(muts)
	run.Cov["transitions"] = judged
	run.Cov["traces_validated_against_impl"] = judged
	run.Cov["documents"] = len(docs)
	run.Cov["generator_outcomes"] = outcomes
	run.Cov["mutation_kinds"] = kinds
	run.Cov["rule"] = "state = (corpus document, one structural mutation at one node: delete / null / retype ×5 / $ref retarget ×3 / type ×7 / format ×12 / in ×4 / schema→content / variable default / 2-cycle); all mutations of all nodes enumerated; transition = load + Generate in a worker process"
	run.Assumptions = []string{"documents the kin-openapi loader rejects are counted, not judged", "locator oracle: an error must mention some specific key on the JSON-pointer path of the mutated node (or the referenced name); wording otherwise free"}
}

// c15ErrClass: outermost stage + innermost message of an error chain, literals abstracted.
func c15ErrClass(msg string) string {
	segs := strings.Split(firstLineOf(msg), ": ")
	return segs[0] + " … " + DiagClass(stripQuoted(segs[len(segs)-1]))
}

var reQuotedStr = regexp.MustCompile(`"[^"]*"|'[^']*'`)

func stripQuoted(s string) string { return reQuotedStr.ReplaceAllString(s, "Q") }

func c15CLI(run *report.Run, env *Env, muts []c15mut, jobs []*genrun.Job, results []*genrun.Result, set []int) {
	bin := filepath.Join(env.Scratch, "goag-cli")
	cmd := exec.Command("go", "build", "-o", bin, "github.com/vkd/goag/cmd/goag")
	cmd.Dir = report.VerifDir
	if out, err := cmd.CombinedOutput(); err != nil {
		internal("build cli: %v: %s", err, out)
	}
	seen := map[int]bool{}
	n := 0
	for _, i := range set {
		if seen[i] || n >= 400 {
			continue
		}
		seen[i] = true
		if results[i] == nil || results[i].Outcome == genrun.GenHang {
			continue // the library run did not terminate (reported there); the CLI would not either
		}
		if results[i].Outcome == genrun.LoadRejected {
			continue // not a document the loader accepts (it may even crash the loader): outside the property
		}
		n++
		dir := filepath.Join(env.Scratch, "cli", fmt.Sprint(i))
		os.MkdirAll(dir, 0o755)
		sf := filepath.Join(dir, "openapi.yaml")
		os.WriteFile(sf, jobs[i].Spec, 0o644)
		// same options as the library job whose verdict is compared
		ctx, cancel := context.WithTimeout(context.Background(), 10*time.Minute)
		c := exec.CommandContext(ctx, bin, "-file", sf, "-out", filepath.Join(dir, "out"), "-package", "gen", "-config", filepath.Join(dir, "none.yaml"),
			fmt.Sprintf("-client=%v", jobs[i].Client), fmt.Sprintf("-api-handler=%v", !jobs[i].NoAPI), "-basepath", jobs[i].BasePath)
		var stderr bytes.Buffer
		c.Stderr = &stderr
		c.Stdout = &stderr
		err := c.Run()
		timedOut := ctx.Err() == context.DeadlineExceeded
		cancel()
		if timedOut {
			run.Violate(&report.Violation{Attrs: map[string]string{"class": "cli-hang"}, State: muts[i].doc + " :: " + muts[i].desc,
				Observed: "the CLI did not exit within 10 minutes although the library run of the same document terminated (" + results[i].Outcome + ")", Expected: "exit", Detail: map[string]any{"job": jobs[i]}})
			os.RemoveAll(dir)
			continue
		}
		exit := 0
		if err != nil {
			exit = 1
			if ee, ok := err.(*exec.ExitError); ok {
				exit = ee.ExitCode()
			}
		}
		crashed := strings.Contains(stderr.String(), "panic:") || strings.Contains(stderr.String(), "goroutine ") || strings.Contains(stderr.String(), "fatal error:")
		// library verdict for the same document (from the worker pool)
		lr := results[i]
		libErr := lr.Outcome != genrun.Success
		if crashed && lr.Outcome != genrun.GenPanic && lr.Outcome != genrun.GenFatal {
			run.Violate(&report.Violation{Attrs: map[string]string{"class": "cli-crash", "frame": panicFrame(stderr.String())}, State: muts[i].doc + " :: " + muts[i].desc,
				Observed: "CLI crashed: " + trunc(stderr.String(), 300), Detail: map[string]any{"job": jobs[i]}})
		}
		if !crashed && (exit != 0) != libErr {
			run.Violate(&report.Violation{Attrs: map[string]string{"class": "cli-exit-status", "exit": fmt.Sprint(exit), "lib": lr.Outcome}, State: muts[i].doc + " :: " + muts[i].desc,
				Observed: fmt.Sprintf("CLI exit status %d but library outcome %s (%s)", exit, lr.Outcome, trunc(lr.Msg, 200)), Expected: "non-zero exit iff error", Detail: map[string]any{"job": jobs[i]}})
		}
		os.RemoveAll(dir)
	}
	// -dir mode: several spec directories in one invocation; the exit status is non-zero iff any of them fails,
	// wherever the failing one sorts
	{
		good, _, _ := cells.Base()
		goodSpec := good.YAML()
		var badIdx []int
		for i := range results {
			// failing documents spread over the corpus (every 97th error)
			if results[i] != nil && results[i].Outcome == genrun.GenError && len(badIdx) < 6 && i%97 == 0 {
				badIdx = append(badIdx, i)
			}
		}
		for i := range results {
			if len(badIdx) == 0 && results[i] != nil && results[i].Outcome == genrun.GenError {
				badIdx = append(badIdx, i)
			}
		}
		type layout struct {
			name string
			dirs []string // "good" | "bad"
		}
		layouts := []layout{{"bad-first", []string{"bad", "good"}}, {"bad-last", []string{"good", "bad"}}, {"bad-middle", []string{"good", "bad", "good"}}, {"all-good", []string{"good", "good"}}}
		dirRuns := 0
		for _, bi := range badIdx {
			for _, lo := range layouts {
				root := filepath.Join(env.Scratch, "clidir", fmt.Sprintf("%d-%s", bi, lo.name))
				wantFail := false
				for k, kind := range lo.dirs {
					d := filepath.Join(root, fmt.Sprintf("%c_%s", 'a'+k, kind))
					os.MkdirAll(d, 0o755)
					sp := goodSpec
					if kind == "bad" {
						sp = jobs[bi].Spec
						wantFail = true
					}
					os.WriteFile(filepath.Join(d, "openapi.yaml"), sp, 0o644)
				}
				ctx, cancel := context.WithTimeout(context.Background(), 10*time.Minute)
				c := exec.CommandContext(ctx, bin, "-dir", root, "-out", "out", "-package", "gen", "-config", "none.yaml", fmt.Sprintf("-client=%v", jobs[bi].Client))
				var stderr bytes.Buffer
				c.Stderr, c.Stdout = &stderr, &stderr
				err := c.Run()
				cancel()
				dirRuns++
				crashed := strings.Contains(stderr.String(), "panic:") || strings.Contains(stderr.String(), "fatal error:")
				if !crashed && (err != nil) != wantFail {
					run.Violate(&report.Violation{Attrs: map[string]string{"class": "cli-dir-exit-status", "layout": lo.name}, State: muts[bi].doc + " :: " + muts[bi].desc,
						Observed: fmt.Sprintf("goag -dir over %v: exit error=%v; output: %s", lo.dirs, err != nil, trunc(stderr.String(), 300)), Expected: "non-zero exit iff one of the directories fails", Detail: map[string]any{"job": jobs[bi]}})
				}
				os.RemoveAll(root)
			}
		}
		run.Cov["cli_dir_runs"] = dirRuns
	}
	run.Cov["cli_runs"] = n
}
