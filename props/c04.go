package props

import (
	"fmt"
	"strings"

	"verif/cells"
	"verif/drv"
	"verif/genrun"
	"verif/report"
	"verif/spec"
)

func init() { Registry["C04"] = C04 }

var leafTypes = map[string][2]string{
	"boolean": {"boolean", ""}, "integer": {"integer", ""}, "int32": {"integer", "int32"}, "int64": {"integer", "int64"},
	"number": {"number", ""}, "float": {"number", "float"}, "double": {"number", "double"}, "string": {"string", ""},
	"date-time": {"string", "date-time"}, "byte": {"string", "byte"}, "binary": {"string", "binary"}, "date": {"string", "date"}, "password": {"string", "password"},
}

func C04(run *report.Run) {
	env := NewEnv(false)
	defer env.Close()
	var states []BState
	for _, c := range cells.ParamCells() {
		a := c.Attrs
		tf, isLeaf := leafTypes[a["kind"]]
		if !isLeaf || a["null"] == "1" {
			continue
		}
		if a["loc"] != "query" && a["loc"] != "query-array" && a["loc"] != "header" {
			continue
		}
		if run.Tier == "quick" {
			// quick: every kind × location × required with the inline declaration; the declaration forms
			// and levels on the reduced kind set
			k2 := a["kind"] == "int32" || a["kind"] == "string" || a["kind"] == "date-time" || a["kind"] == "boolean" || a["kind"] == "float"
			if !(a["decl"] == "inline" && a["level"] == "op") && !k2 {
				continue
			}
		}
		in := "query"
		if a["loc"] == "header" {
			in = "header"
		}
		pd := drv.ParamDecl{Name: "v", In: in, Required: a["req"] == "1", Array: a["loc"] == "query-array", Type: tf[0], Format: tf[1]}
		// string formats other than date-time are plain strings
		if pd.Type == "string" && pd.Format != "date-time" {
			pd.Format = ""
		}
		if pd.Format == "double" {
			pd.Format = ""
		}
		pl := &drv.ParamPayload{State: c.ID, Method: "GET", Path: "/p", Params: []drv.ParamDecl{pd}}
		states = append(states, BState{ID: c.ID, Attrs: c.Attrs, Gen: &genrun.Job{Spec: c.Spec.YAML()}, Prop: "C04", Payload: pl})
	}
	// level 2: two parameters in one operation over the reduced kind set × {query, header} × required
	type opt struct {
		kind, in string
	}
	var opts []opt
	for _, k := range []string{"int32", "string", "date-time"} {
		for _, in := range []string{"query", "header"} {
			opts = append(opts, opt{k, in})
		}
	}
	for i, a := range opts {
		for _, b := range opts[i:] {
			for _, ra := range []bool{false, true} {
				for _, rb := range []bool{false, true} {
					s, _, op := cells.Base()
					mk := func(name string, o opt, req bool) (*spec.Param, drv.ParamDecl) {
						tf := leafTypes[o.kind]
						return &spec.Param{Name: name, In: o.in, Required: req, Schema: spec.TF(tf[0], tf[1])}, drv.ParamDecl{Name: name, In: o.in, Required: req, Type: tf[0], Format: tf[1]}
					}
					p1, d1 := mk("va", a, ra)
					p2, d2 := mk("wb", b, rb)
					op.Params = []*spec.Param{p1, p2}
					id := fmt.Sprintf("parampair[a=%s/%s/req=%v,b=%s/%s/req=%v]", a.kind, a.in, ra, b.kind, b.in, rb)
					pl := &drv.ParamPayload{State: id, Method: "GET", Path: "/p", Params: []drv.ParamDecl{d1, d2}}
					states = append(states, BState{ID: id, Attrs: map[string]string{"fam": "parampair"}, Gen: &genrun.Job{Spec: s.YAML()}, Prop: "C04", Payload: pl})
				}
			}
		}
	}
	// same name in two locations (a query and a header parameter called "v"), at the same or at different levels
	for _, ka := range []string{"int32", "string"} {
		for _, kb := range []string{"int32", "string"} {
			for _, arrangement := range []string{"both-op", "hdr-pathitem", "query-pathitem", "both-pathitem"} {
				for _, reqH := range []bool{false, true} {
					s, pi, op := cells.Base()
					ta, tb := leafTypes[ka], leafTypes[kb]
					ph := &spec.Param{Name: "v", In: "header", Required: reqH, Schema: spec.TF(ta[0], ta[1])}
					pq := &spec.Param{Name: "v", In: "query", Required: !reqH, Schema: spec.TF(tb[0], tb[1])}
					switch arrangement {
					case "both-op":
						op.Params = []*spec.Param{ph, pq}
					case "hdr-pathitem":
						pi.Params = []*spec.Param{ph}
						op.Params = []*spec.Param{pq}
					case "query-pathitem":
						pi.Params = []*spec.Param{pq}
						op.Params = []*spec.Param{ph}
					case "both-pathitem":
						pi.Params = []*spec.Param{ph, pq}
					}
					id := fmt.Sprintf("samename[hdr=%s/req=%v,query=%s,%s]", ka, reqH, kb, arrangement)
					pl := &drv.ParamPayload{State: id, Method: "GET", Path: "/p", Params: []drv.ParamDecl{
						{Name: "v", In: "header", Required: reqH, Type: ta[0], Format: ta[1]}, {Name: "v", In: "query", Required: !reqH, Type: tb[0], Format: tb[1]}}}
					states = append(states, BState{ID: id, Attrs: map[string]string{"fam": "samename", "arrangement": arrangement}, Gen: &genrun.Job{Spec: s.YAML()}, Prop: "C04", Payload: pl})
				}
			}
		}
	}
	// sibling operations of one path item: the path item declares v, one operation overrides it with another
	// type / requiredness, the other inherits it; each operation is judged against its own effective declaration
	for _, in := range []string{"query", "header"} {
		for _, kp := range []string{"int32", "string"} {
			ko := map[string]string{"int32": "string", "string": "int32"}[kp]
			for _, rp := range []bool{false, true} {
				for _, ro := range []bool{false, true} {
					for _, overrider := range []string{"GET", "DELETE"} {
						s, pi, op := cells.Base()
						tp, to := leafTypes[kp], leafTypes[ko]
						pi.Params = []*spec.Param{{Name: "v", In: in, Required: rp, Schema: spec.TF(tp[0], tp[1])}}
						other := &spec.Op{Method: "DELETE", Responses: []*spec.Response{{Status: "default", Desc: "d"}}}
						pi.Ops = append(pi.Ops, other)
						ov := &spec.Param{Name: "v", In: in, Required: ro, Schema: spec.TF(to[0], to[1])}
						if overrider == "GET" {
							op.Params = []*spec.Param{ov}
						} else {
							other.Params = []*spec.Param{ov}
						}
						for _, m := range []string{"GET", "DELETE"} {
							pd := drv.ParamDecl{Name: "v", In: in, Required: rp, Type: tp[0], Format: tp[1]}
							role := "inherits"
							if m == overrider {
								pd = drv.ParamDecl{Name: "v", In: in, Required: ro, Type: to[0], Format: to[1]}
								role = "overrides"
							}
							id := fmt.Sprintf("sibling[in=%s,pathitem=%s/req=%v,override=%s/req=%v,by=%s,judged=%s]", in, kp, rp, ko, ro, overrider, m)
							pl := &drv.ParamPayload{State: id, Method: m, Path: "/p", Params: []drv.ParamDecl{pd}}
							states = append(states, BState{ID: id, Attrs: map[string]string{"fam": "sibling", "role": role, "by": overrider}, Gen: &genrun.Job{Spec: s.YAML()}, Prop: "C04", Payload: pl})
						}
					}
				}
			}
		}
	}
	// header and query NAMES of several shapes (capitals inside a segment, all lower case, digits, one segment):
	// the name as written is what the server must read
	for _, n := range []string{"X-API-Key", "X-Request-ID", "ETag", "x-lower-case", "X-RateLimit-Limit", "X-B3-TraceId", "Accept-Language", "page_size", "filter.name", "Q"} {
		for _, in := range []string{"header", "query"} {
			if in == "header" && strings.ContainsAny(n, "_.") {
				continue
			}
			for _, k := range []string{"int32", "string"} {
				for _, req := range []bool{false, true} {
					s, _, op := cells.Base()
					tf := leafTypes[k]
					op.Params = []*spec.Param{{Name: n, In: in, Required: req, Schema: spec.TF(tf[0], tf[1])}}
					id := fmt.Sprintf("paramname[in=%s,name=%s,kind=%s,req=%v]", in, n, k, req)
					pl := &drv.ParamPayload{State: id, Method: "GET", Path: "/p", Params: []drv.ParamDecl{{Name: n, In: in, Required: req, Type: tf[0], Format: tf[1]}}}
					states = append(states, BState{ID: id, Attrs: map[string]string{"fam": "paramname", "name": n, "in": in}, Gen: &genrun.Job{Spec: s.YAML()}, Prop: "C04", Payload: pl})
				}
			}
		}
	}
	// declaration modifiers that must not change parsing: deprecated parameters
	for _, in := range []string{"query", "header"} {
		for _, k := range []string{"int32", "string"} {
			for _, req := range []bool{false, true} {
				s, _, op := cells.Base()
				tf := leafTypes[k]
				op.Params = []*spec.Param{{Name: "v", In: in, Required: req, Deprecated: true, Schema: spec.TF(tf[0], tf[1])}}
				id := fmt.Sprintf("deprecated[in=%s,kind=%s,req=%v]", in, k, req)
				pl := &drv.ParamPayload{State: id, Method: "GET", Path: "/p", Params: []drv.ParamDecl{{Name: "v", In: in, Required: req, Type: tf[0], Format: tf[1]}}}
				states = append(states, BState{ID: id, Attrs: map[string]string{"fam": "deprecated"}, Gen: &genrun.Job{Spec: s.YAML()}, Prop: "C04", Payload: pl})
			}
		}
	}
	st := RunBatch(run, env, states, 250)
	run.Cov["states"] = st.Healthy
	run.Cov["transitions"] = st.Counters["requests"]
	run.Cov["traces_validated_against_impl"] = st.Counters["requests"]
	run.Cov["outcome_classes"] = map[string]int64{"expect-ok": st.Counters["expect-ok"], "expect-fail": st.Counters["expect-fail"], "dontcare": st.Counters["dontcare"]}
	run.Cov["masked_states"] = st.Masked
	run.Cov["masked_why"] = st.MaskedWhy
	run.Cov["enumerated_states"] = st.States
	run.Cov["rule"] = "state = one parameter declaration cell (13 leaf kinds × {query scalar, query array, header} × required × {inline, schema $ref, alias, component parameter} × {operation, path-item, operation overriding a differently typed path-item parameter}) or a pair of parameters, or two sibling operations of which one overrides a path-item parameter and the other inherits it, or a deprecated parameter; transition = one request from the type's lexeme table × cardinality {absent, one, two, good+bad, bad+good}; oracle = reference lexer"
}
