package props

import (
	"fmt"
	"path/filepath"
	"sort"
	"strings"

	"verif/cells"
	"verif/drv"
	"verif/genrun"
	"verif/report"
	"verif/spec"
)

func init() { Registry["C18"] = C18 }

type c18pair struct {
	id      string
	attrs   map[string]string
	a, b    cells.Cell
	payload *drv.DiffPayload
}

func keyWithout(a map[string]string, drop ...string) string {
	d := map[string]bool{}
	for _, x := range drop {
		d[x] = true
	}
	var ks []string
	for k := range a {
		if !d[k] {
			ks = append(ks, k)
		}
	}
	sort.Strings(ks)
	var b strings.Builder
	for _, k := range ks {
		fmt.Fprintf(&b, "%s=%s,", k, a[k])
	}
	return b.String()
}

func c18Pairs(tier string) []c18pair {
	var out []c18pair
	k2 := map[string]bool{}
	for _, k := range cells.K2Names {
		k2[k] = true
	}
	for _, k := range []string{"boolean", "number", "integer", "any", "map<string>", "object+addtrue", "array<object>", "oneOf+disc"} {
		k2[k] = true
	}
	group := func(cs []cells.Cell, axis, base string, keep func(c cells.Cell) bool, mk func(a, b cells.Cell) *drv.DiffPayload) {
		groups := map[string]map[string]cells.Cell{}
		for _, c := range cs {
			if !keep(c) {
				continue
			}
			k := keyWithout(c.Attrs, axis)
			if groups[k] == nil {
				groups[k] = map[string]cells.Cell{}
			}
			groups[k][c.Attrs[axis]] = c
		}
		for _, k := range spec.SortedKeys(groups) {
			g := groups[k]
			a, ok := g[base]
			if !ok {
				continue
			}
			for _, v := range spec.SortedKeys(g) {
				if v == base {
					continue
				}
				b := g[v]
				pl := mk(a, b)
				if pl == nil {
					continue
				}
				id := fmt.Sprintf("pair[%s %s=%s|%s]", k, axis, base, v)
				pl.State = id
				attrs := mergeAttrs(a.Attrs, map[string]string{"axis": axis, "variant": v})
				delete(attrs, axis)
				out = append(out, c18pair{id: id, attrs: attrs, a: a, b: b, payload: pl})
			}
		}
	}
	quickKind := func(c cells.Cell) bool { return tier != "quick" || k2[c.Attrs["kind"]] }
	// parameters: inline declaration vs schema $ref / alias / component parameter
	group(cells.ParamCells(), "decl", "inline", func(c cells.Cell) bool {
		_, leaf := leafTypes[c.Attrs["kind"]]
		l := c.Attrs["loc"]
		return leaf && c.Attrs["null"] == "0" && (l == "query" || l == "query-array" || l == "header" || l == "path") && (tier != "quick" || (c.Attrs["level"] != "override" && c.Attrs["level"] != "sibling") || c.Attrs["kind"] == "int32" || c.Attrs["kind"] == "string")
	}, func(a, b cells.Cell) *drv.DiffPayload {
		tf := leafTypes[a.Attrs["kind"]]
		in := map[string]string{"query": "query", "query-array": "query", "header": "header", "path": "path"}[a.Attrs["loc"]]
		pd := drv.ParamDecl{Name: "v", In: in, Required: a.Attrs["req"] == "1", Array: a.Attrs["loc"] == "query-array", Type: tf[0], Format: tf[1]}
		if pd.Type == "string" && pd.Format != "date-time" {
			pd.Format = ""
		}
		if pd.Format == "double" {
			pd.Format = ""
		}
		path := "/p"
		if in == "path" {
			path = "/p/{v}"
		}
		return &drv.DiffPayload{Mode: "params", Params: &drv.ParamPayload{Method: "GET", Path: path, Params: []drv.ParamDecl{pd}}}
	})
	// schemas below a component: inline vs $ref vs alias
	group(cells.SchemaCells(), "form", "inline", func(c cells.Cell) bool {
		switch c.Attrs["pos"] {
		case "property", "items", "addprops", "oneof", "allof":
			return quickKind(c)
		}
		return false
	}, func(a, b cells.Cell) *drv.DiffPayload {
		return &drv.DiffPayload{Mode: "json", Spec: a.Spec, Type: "Top"}
	})
	// request bodies: schema form and body form
	bodySchema := func(c cells.Cell) *spec.Schema {
		op := c.Spec.Paths[0].Ops[0]
		b := c.Spec.ResolveBody(op.Body)
		if b == nil {
			return nil
		}
		return b.Schema
	}
	for _, axis := range [][2]string{{"form", "inline"}, {"bform", "inline"}} {
		group(cells.SchemaCells(), axis[0], axis[1], func(c cells.Cell) bool { return c.Attrs["pos"] == "reqbody" && quickKind(c) && c.Attrs["null"] == "0" },
			func(a, b cells.Cell) *drv.DiffPayload {
				return &drv.DiffPayload{Mode: "body", Spec: a.Spec, Schema: bodySchema(a), BodyOp: "/p"}
			})
	}
	// content maps with two media types: inline vs component request body / response
	group(cells.RespSetCells(), "form", "inline", func(c cells.Cell) bool {
		return c.Attrs["fam"] == "multimedia" && c.Attrs["site"] == "reqbody" && strings.HasPrefix(c.Attrs["content"], "json")
	}, func(a, b cells.Cell) *drv.DiffPayload {
		return &drv.DiffPayload{Mode: "body", Spec: a.Spec, Schema: bodySchema(a), BodyOp: "/p"}
	})
	group(cells.RespSetCells(), "form", "inline", func(c cells.Cell) bool {
		return c.Attrs["fam"] == "multimedia" && c.Attrs["site"] == "response"
	}, func(a, b cells.Cell) *drv.DiffPayload {
		return &drv.DiffPayload{Mode: "response", Resp: respPayload(a.Spec, "C18", a.ID)}
	})
	group(cells.RespSetCells(), "form", "inline", func(c cells.Cell) bool { return c.Attrs["fam"] == "hdrshare" },
		func(a, b cells.Cell) *drv.DiffPayload {
			return &drv.DiffPayload{Mode: "response", Resp: respPayload(a.Spec, "C18", a.ID)}
		})
	group(cells.OneOfOrderCells(), "form", "inline", func(c cells.Cell) bool { return true },
		func(a, b cells.Cell) *drv.DiffPayload {
			return &drv.DiffPayload{Mode: "json", Spec: a.Spec, Type: "Top"}
		})
	// responses: schema form, response form, header form
	for _, axis := range [][2]string{{"form", "inline"}, {"rform", "inline"}} {
		group(cells.SchemaCells(), axis[0], axis[1], func(c cells.Cell) bool { return c.Attrs["pos"] == "respbody" && quickKind(c) && c.Attrs["null"] == "0" },
			func(a, b cells.Cell) *drv.DiffPayload {
				return &drv.DiffPayload{Mode: "response", Resp: respPayload(a.Spec, "C18", a.ID)}
			})
	}
	group(cells.HeaderCells(), "form", "inline", func(c cells.Cell) bool { return true }, func(a, b cells.Cell) *drv.DiffPayload {
		return &drv.DiffPayload{Mode: "response", Resp: respPayload(a.Spec, "C18", a.ID)}
	})
	// components shared by several operations vs the same responses written inline
	{
		shared := func(ref bool) *spec.Spec {
			s := &spec.Spec{}
			r := func(status string) *spec.Response {
				if ref {
					return &spec.Response{Status: status, Ref: "Shared"}
				}
				return &spec.Response{Status: status, Desc: "r", Schema: spec.Obj(spec.P("a", spec.T("string")), spec.P("b", spec.TF("integer", "int32"))).Req("a"), Headers: []*spec.Header{{Name: "X-S", Schema: spec.T("string")}}}
			}
			if ref {
				s.Comp.Responses = []spec.NamedResponse{{Name: "Shared", Response: &spec.Response{Desc: "r", Schema: spec.Obj(spec.P("a", spec.T("string")), spec.P("b", spec.TF("integer", "int32"))).Req("a"), Headers: []*spec.Header{{Name: "X-S", Schema: spec.T("string")}}}}}
			}
			s.Paths = []*spec.PathItem{{Template: "/p", Ops: []*spec.Op{{Method: "GET", Responses: []*spec.Response{r("200")}}, {Method: "POST", Responses: []*spec.Response{r("201"), {Status: "default", Desc: "d"}}}}},
				{Template: "/q", Ops: []*spec.Op{{Method: "GET", Responses: []*spec.Response{r("202")}}}}}
			return s
		}
		a := cells.NewCell("shared", map[string]string{"shape": "three-statuses", "rform": "inline"}, shared(false))
		b := cells.NewCell("shared", map[string]string{"shape": "three-statuses", "rform": "component"}, shared(true))
		out = append(out, c18pair{id: "pair[shared three-statuses inline|component]", attrs: map[string]string{"fam": "shared", "axis": "rform", "variant": "component"}, a: a, b: b,
			payload: &drv.DiffPayload{State: "pair[shared three-statuses inline|component]", Mode: "response", Resp: respPayload(a.Spec, "C18", a.ID)}})
	}
	// header parameters by $ref under cors: the preflight must advertise the same headers
	n0 := len(out)
	group(cells.ParamCells(), "decl", "inline", func(c cells.Cell) bool {
		return c.Attrs["loc"] == "header" && c.Attrs["null"] == "0" && (c.Attrs["kind"] == "string" || c.Attrs["kind"] == "int32") && c.Attrs["level"] != "override"
	}, func(a, b cells.Cell) *drv.DiffPayload {
		return &drv.DiffPayload{Mode: "cors", Params: &drv.ParamPayload{Method: "GET", Path: "/p"}}
	})
	for i := n0; i < len(out); i++ {
		out[i].id += "+cors"
		out[i].payload.State = out[i].id
		out[i].attrs["cors"] = "1"
	}
	return out
}

func C18(run *report.Run) {
	env := NewEnv(false)
	defer env.Close()
	pairs := c18Pairs(run.Tier)
	// static pass: both variants must generate and type-check, or neither
	var jobs []*genrun.Job
	for i, p := range pairs {
		for k, c := range []cells.Cell{p.a, p.b} {
			id := fmt.Sprintf("s%05d%c", i, 'a'+k)
			jobs = append(jobs, &genrun.Job{ID: id, Spec: c.Spec.YAML(), OutDir: filepath.Join(env.Scratch, "static", id), Package: "gen", Static: true, Client: true})
		}
	}
	results := env.Pool.RunAll(jobs, nil)
	var states []BState
	asym, bothBad := 0, 0
	for i, p := range pairs {
		ra, rb := results[2*i], results[2*i+1]
		ha, hb := ra.Healthy(), rb.Healthy()
		switch {
		case ha && hb:
			cors := p.attrs["cors"] == "1"
			states = append(states, BState{ID: p.id, Attrs: p.attrs, Gen: &genrun.Job{Spec: p.a.Spec.YAML(), Client: true, Cors: cors}, Pair: &genrun.Job{Spec: p.b.Spec.YAML(), Client: true, Cors: cors}, Prop: "C18", Payload: p.payload})
		case ha != hb:
			asym++
			bad, good, side := rb, ra, "ref-variant"
			if hb {
				bad, good, side = ra, rb, "inline-variant"
			}
			_ = good
			why := bad.Outcome
			diag := bad.Msg
			if bad.Outcome == genrun.Success {
				why = "does-not-compile"
				if len(bad.TypeErr) > 0 {
					_, diag = NormDiag(bad.TypeErr[0])
				} else if len(bad.SyntaxErr) > 0 {
					_, diag = NormDiag(bad.SyntaxErr[0])
				}
			}
			attrs := mergeAttrs(p.attrs, map[string]string{"kind": "asymmetric-generation", "side": side, "why": why, "diagclass": DiagClass(stripQuoted(diag))})
			if k, ok := attrs["kind"]; ok && k != "asymmetric-generation" {
				attrs["skind"] = k
			}
			if sk, ok := p.attrs["kind"]; ok {
				attrs["skind"] = sk
			}
			attrs["kind"] = "asymmetric-generation"
			run.Violate(&report.Violation{Attrs: attrs, State: p.id, Observed: fmt.Sprintf("the %s %s (%s) while its twin generates and compiles", side, why, trunc(diag, 200)),
				Expected: "a $ref behaves exactly like an inline copy of its target", Detail: map[string]any{"job": jobs[2*i+map[bool]int{true: 1, false: 0}[side == "ref-variant"]]}})
		default:
			bothBad++
		}
	}
	st := RunBatch(run, env, states, 125)
	run.Cov["states"] = st.Healthy
	run.Cov["transitions"] = st.Counters["compared"]
	run.Cov["traces_validated_against_impl"] = st.Counters["compared"]
	run.Cov["pairs_enumerated"] = len(pairs)
	run.Cov["pairs_asymmetric"] = asym
	run.Cov["pairs_both_unhealthy"] = bothBad
	run.Cov["counters"] = st.Counters
	run.Cov["masked_states"] = st.Masked
	run.Cov["masked_why"] = st.MaskedWhy
	run.Cov["rule"] = "state = a PAIR of programs generated from two specs that differ only in one $ref-vs-inline choice (parameter declaration: inline / schema $ref / alias / component parameter; schema at property, items, additionalProperties, oneOf and allOf member position: inline / $ref / alias; request body: schema form and inline / components.requestBodies; response: schema form, inline / components.responses / alias, header inline / schema $ref / components.headers; a component response shared by three operations vs inline copies); transition = one shared raw input (request from the lexeme×cardinality table, JSON document from the schema-directed generator incl. single faults, response value from the aligned constructor enumeration) run against both; oracle = differential: same dispatch, same accept/reject and parameter named, equal parsed values / equivalent re-encoded JSON / equal status, headers and body; a variant that fails to generate or compile while its twin succeeds is a violation"
}
