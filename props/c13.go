package props

import (
	"bytes"
	"fmt"
	"os"
	"os/exec"
	"path/filepath"
	"sort"
	"strings"

	"github.com/ghodss/yaml"

	"verif/cells"
	"verif/genrun"
	"verif/report"
	"verif/spec"
)

func init() { Registry["C13"] = C13 }

var c13Alphabet = []byte{'`', '"', '\\', '\n', '\r', '$', 'a'}

func allStrings(alpha []byte, minLen, maxLen int) [][]byte {
	var out [][]byte
	var rec func(cur []byte, n int)
	rec = func(cur []byte, n int) {
		if len(cur) == n {
			out = append(out, append([]byte{}, cur...))
			return
		}
		for _, c := range alpha {
			rec(append(cur, c), n)
		}
	}
	for n := minLen; n <= maxLen; n++ {
		rec(nil, n)
	}
	return out
}

func c13Shape(raw []byte) map[string]string {
	has := func(c byte) string { return b01(bytes.IndexByte(raw, c) >= 0) }
	return map[string]string{"nl": has('\n'), "cr": has('\r'), "bq": has('`'), "dq": has('"'), "bs": has('\\')}
}

func b01(b bool) string {
	if b {
		return "1"
	}
	return "0"
}

type c13case struct {
	id   string
	spec []byte // parsed document
	raw  []byte
	dne  bool
	pre  []byte // content embedded by an earlier run into the same directory (nil: fresh directory)
}

// fixtureSpecs returns the repository's own spec files (real YAML documents).
func fixtureSpecs() map[string][]byte {
	out := map[string][]byte{}
	for _, pat := range []string{"/repo/tests/*/openapi.yaml", "/repo/examples/*/openapi.yaml"} {
		ms, _ := filepath.Glob(pat)
		for _, m := range ms {
			if bs, err := os.ReadFile(m); err == nil {
				out[strings.TrimPrefix(filepath.Dir(m), "/repo/")] = bs
			}
		}
	}
	return out
}

func C13(run *report.Run) {
	env := NewEnv(true)
	defer env.Close()
	base, _, _ := cells.Base()
	baseDoc := base.YAML()

	var cases []c13case
	maxFull := 4
	for _, raw := range allStrings(c13Alphabet, 0, maxFull) {
		cases = append(cases, c13case{id: fmt.Sprintf("bytes:%q", raw), spec: baseDoc, raw: raw, dne: len(raw)%2 == 0})
	}
	// real documents in several physical forms
	fx := fixtureSpecs()
	names := make([]string, 0, len(fx))
	for n := range fx {
		names = append(names, n)
	}
	sort.Strings(names)
	for _, n := range names {
		orig := fx[n]
		forms := map[string][]byte{
			"asis":  orig,
			"crlf":  bytes.ReplaceAll(orig, []byte("\n"), []byte("\r\n")),
			"notnl": bytes.TrimRight(orig, "\n"),
		}
		if js, err := yaml.YAMLToJSON(orig); err == nil {
			forms["oneline-json"] = js
		}
		for _, fn := range []string{"asis", "crlf", "notnl", "oneline-json"} {
			raw, ok := forms[fn]
			if !ok {
				continue
			}
			for _, dne := range []bool{false, true} {
				cases = append(cases, c13case{id: "fixture:" + n + ":" + fn, spec: orig, raw: raw, dne: dne})
			}
		}
		// the same document embedded after another physical form of it was embedded into the same directory
		// (the forms differ in white space only: line terminators, final newline)
		forms["blanklines"] = bytes.ReplaceAll(orig, []byte("\n"), []byte("\n\n"))   // every line followed by an empty one
		forms["indented"] = bytes.ReplaceAll(orig, []byte("\n  "), []byte("\n    ")) // deeper indentation (white space only)
		for _, pair := range [][2]string{{"crlf", "asis"}, {"asis", "crlf"}, {"asis", "notnl"}, {"notnl", "asis"}, {"asis", "blanklines"}, {"blanklines", "asis"}, {"asis", "indented"}, {"indented", "asis"}} {
			if !bytes.Equal(forms[pair[0]], forms[pair[1]]) {
				cases = append(cases, c13case{id: "fixture:" + n + ":" + pair[1] + "-after-" + pair[0], spec: orig, raw: forms[pair[1]], pre: forms[pair[0]], dne: true})
			}
		}
	}
	jobs := make([]*genrun.Job, len(cases))
	for i, c := range cases {
		jobs[i] = &genrun.Job{ID: fmt.Sprintf("s%06d", i), Spec: c.spec, Raw: c.raw, RawSet: true, OutDir: filepath.Join(env.Scratch, "gen", fmt.Sprintf("s%06d", i)),
			Package: "gen", DoNotEdit: c.dne, Static: true, SpecConst: true}
		if c.pre != nil {
			jobs[i].Pre = &genrun.Job{Spec: c.spec, Raw: c.pre, RawSet: true, Package: "gen", DoNotEdit: c.dne}
		}
	}
	var judged, ok int64
	classes := map[string]int{}
	violate := func(id string, raw []byte, class, msg, got string, j *genrun.Job) {
		a := c13Shape(raw)
		a["class"] = class
		kind := "bytes"
		if strings.HasPrefix(id, "fixture:") {
			kind = "document"
		}
		a["kind"] = kind
		run.Violate(&report.Violation{Attrs: a, State: id, Input: fmt.Sprintf("%q", trunc(string(raw), 200)),
			Observed: class + ": " + trunc(msg, 200) + " got=" + fmt.Sprintf("%q", trunc(got, 200)),
			Expected: "spec_file.go compiles and the SpecFile constant equals the input bytes",
			Detail:   map[string]any{"job": j}})
	}
	env.Pool.RunAll(jobs, func(j *genrun.Job, r *genrun.Result) {
		var i int
		fmt.Sscanf(j.ID, "s%d", &i)
		c := cases[i]
		if r.Outcome == "internal" {
			internal("%s: %s", c.id, r.Msg)
		}
		if r.Outcome != genrun.Success {
			classes["generator:"+r.Outcome]++
			return // a fixture the generator rejects: not C13's business
		}
		judged++
		class, msg, got := "", "", ""
		for _, e := range r.SyntaxErr {
			if strings.Contains(e, "spec_file.go") {
				class, msg = "not-go", e
			}
		}
		if class == "" {
			for _, e := range r.TypeErr {
				if strings.Contains(e, "spec_file.go") {
					class, msg = "type-error", e
				}
			}
		}
		if class == "" && r.SpecConst != nil && *r.SpecConst != string(c.raw) {
			class, got = "differs", *r.SpecConst
		}
		if class == "" && r.SpecConst == nil && len(r.SyntaxErr) == 0 && len(r.TypeErr) == 0 {
			class, msg = "type-error", r.SpecConstErr
		}
		if class == "" && r.SpecConst == nil {
			// the package is broken elsewhere (C01's business): judge the file alone
			class = "unjudged"
		}
		if class == "unjudged" {
			classes[class]++
			return
		}
		if class == "" {
			ok++
			classes["equal"]++
			if i%397 == 0 {
				run.Sample(map[string]any{"case": c.id, "verdict": "SpecFile == input"})
			}
			return
		}
		classes[class]++
		violate(c.id, c.raw, class, msg, got, j)
	})
	states := int64(len(cases))
	// second alphabet (text that is not valid Go source: NUL, invalid UTF-8, BOM; multi-byte runes),
	// all sequences of <= 3 units (<= 4 in thorough), and in thorough lengths 5..6 of the first alphabet;
	// both through Generator.SpecFile + WriteToFile (the two calls Generate makes for this file)
	{
		units := [][]byte{{'\n'}, {'a'}, {0}, {0xff}, {0xef, 0xbb, 0xbf}, []byte("é"), {'\r'}, {'`'}, {'%'}, []byte("%s"), []byte("{{")}
		maxU := 3
		if run.Tier == "thorough" {
			maxU = 4
		}
		var long [][]byte
		var rec func(cur []byte, n int)
		rec = func(cur []byte, n int) {
			if n == 0 {
				long = append(long, append([]byte{}, cur...))
				return
			}
			for _, u := range units {
				rec(append(append([]byte{}, cur...), u...), n-1)
			}
		}
		for n := 1; n <= maxU; n++ {
			rec(nil, n)
		}
		if run.Tier == "thorough" {
			long = append(long, allStrings(c13Alphabet, 5, 6)...)
		}
		// long lines: one unit that needs escaping at every offset of a long run of plain bytes (one-line and
		// multi-line contents), so that any wrapping, chunking or buffering of the literal meets it at every phase
		{
			span := 300
			if run.Tier == "thorough" {
				span = 700
			}
			special := [][]byte{{'\\'}, {'"'}, {'`'}, {'\t'}, {0x7f}, []byte("é"), {'\\', '\\'}, []byte("\\n"), {'\r'}}
			// the same around every power-of-two length up to 8 KiB (16 KiB thorough), where a wrapped or
			// buffered literal would be cut
			maxPow := 8192
			if run.Tier == "thorough" {
				maxPow = 16384
			}
			for b := 512; b <= maxPow; b *= 2 {
				for _, u := range special {
					for off := b - 14; off <= b+2; off++ {
						long = append(long, append(append(bytes.Repeat([]byte{'a'}, off), u...), bytes.Repeat([]byte{'a'}, 24)...))
					}
				}
			}
			for _, u := range special {
				for off := 0; off <= span; off++ {
					line := append(append(bytes.Repeat([]byte{'a'}, off), u...), bytes.Repeat([]byte{'a'}, span+20-off)...)
					long = append(long, line)
					if off%7 == 0 {
						long = append(long, append([]byte("k: v\n"), line...))
					}
				}
			}
		}
		const chunk = 2000
		var jobs2 []*genrun.Job
		for i := 0; i < len(long); i += chunk {
			end := i + chunk
			if end > len(long) {
				end = len(long)
			}
			id := fmt.Sprintf("r%06d", i)
			jobs2 = append(jobs2, &genrun.Job{ID: id, Spec: baseDoc, OutDir: filepath.Join(env.Scratch, "gen", id), DoNotEdit: (i/chunk)%2 == 0, Raws: long[i:end]})
		}
		env.Pool.RunAll(jobs2, func(j *genrun.Job, r *genrun.Result) {
			if r.Outcome != genrun.Success {
				internal("spec-file batch %s: %s %s", j.ID, r.Outcome, r.Msg)
			}
			for k, sr := range r.SpecFiles {
				judged++
				states++
				if sr.OK {
					ok++
					classes["equal"]++
					continue
				}
				classes[sr.Class]++
				violate(fmt.Sprintf("bytes:%q", j.Raws[k]), j.Raws[k], sr.Class, sr.Msg, sr.Got, &genrun.Job{Spec: baseDoc, Raw: j.Raws[k], RawSet: true, Static: true, SpecConst: true, DoNotEdit: j.DoNotEdit})
			}
		})
	}
	run.Cov["states"] = states
	run.Cov["transitions"] = judged
	run.Cov["traces_validated_against_impl"] = judged
	run.Cov["outcome_classes"] = classes
	run.Cov["equal"] = ok
	run.Cov["alphabet"] = fmt.Sprintf("%q", c13Alphabet)
	run.Cov["rule"] = "state = one spec-file content (every byte string over the alphabet up to the length bound; every repository spec in as-is / CRLF / no-trailing-newline / one-line-JSON form, also after another of these forms was embedded into the same directory; long lines with one escape-needing unit at every offset) × donotedit; transition = generate, compile spec_file.go with go/types, evaluate the SpecFile constant, compare with the input"
	c13CLI(run, env)
	c13Served(run, env)
}

// c13CLI binds the file-based entry point (the command-line tool reads the spec file itself) to the
// property: real documents in several physical forms, written to a file and generated with the real
// binary; the constant in the spec_file.go it writes must equal the file byte for byte.
func c13CLI(run *report.Run, env *Env) {
	bin := filepath.Join(env.Scratch, "goag-cli")
	cmd := exec.Command("go", "build", "-o", bin, "github.com/vkd/goag/cmd/goag")
	cmd.Dir = report.VerifDir
	if out, err := cmd.CombinedOutput(); err != nil {
		internal("build cli: %v: %s", err, out)
	}
	bom := []byte{0xef, 0xbb, 0xbf}
	docs := map[string][]byte{}
	for n, orig := range fixtureSpecs() {
		if n == "tests/default" || n == "tests/params" || n == "examples/petstore" {
			docs[n] = orig
		}
	}
	base, _, _ := cells.Base()
	docs["base-json"] = base.YAML()
	var n, okN int64
	for _, name := range spec.SortedKeys(docs) {
		orig := docs[name]
		forms := map[string][]byte{
			"asis":       orig,
			"bom":        append(append([]byte{}, bom...), orig...),
			"crlf":       bytes.ReplaceAll(orig, []byte("\n"), []byte("\r\n")),
			"bom+crlf":   append(append([]byte{}, bom...), bytes.ReplaceAll(orig, []byte("\n"), []byte("\r\n"))...),
			"notnl":      bytes.TrimRight(orig, "\n"),
			"trailing":   append(append([]byte{}, orig...), []byte("\n\n  \n")...),
			"blanklines": bytes.ReplaceAll(orig, []byte("\n"), []byte("\n\n")),
		}
		for _, fn := range spec.SortedKeys(forms) {
			raw := forms[fn]
			dir := filepath.Join(env.Scratch, "c13cli", fmt.Sprintf("%d", n))
			os.MkdirAll(dir, 0o755)
			sf := filepath.Join(dir, "openapi.yaml")
			os.WriteFile(sf, raw, 0o644)
			c := exec.Command(bin, "-file", sf, "-out", filepath.Join(dir, "out"), "-package", "gen", "-config", filepath.Join(dir, "none.yaml"))
			out, err := c.CombinedOutput()
			n++
			if err != nil {
				// a form the loader does not accept is not a spec file content the tool can embed
				classesCLI(run, "cli-rejected")
				os.RemoveAll(dir)
				continue
			}
			src, rerr := os.ReadFile(filepath.Join(dir, "out", "spec_file.go"))
			if rerr != nil {
				run.Violate(&report.Violation{Attrs: map[string]string{"class": "cli-no-spec-file", "kind": "document", "form": fn}, State: "cli:" + name + ":" + fn, Observed: "the CLI exited 0 without writing spec_file.go: " + trunc(string(out), 200)})
				os.RemoveAll(dir)
				continue
			}
			r := genrun.JudgeSpecFile(src, raw)
			if r.OK {
				okN++
			} else {
				a := c13Shape(raw)
				a["class"], a["kind"], a["form"], a["entry"] = r.Class, "document", fn, "cli"
				run.Violate(&report.Violation{Attrs: a, State: "cli:" + name + ":" + fn, Input: fmt.Sprintf("%q", trunc(string(raw), 120)),
					Observed: r.Class + ": " + trunc(r.Msg, 200) + " got=" + fmt.Sprintf("%q", trunc(r.Got, 120)), Expected: "the SpecFile constant written by the command-line tool equals the file it was given, byte for byte"})
			}
			os.RemoveAll(dir)
		}
	}
	run.Cov["cli_spec_files"] = n
	run.Cov["cli_spec_files_equal"] = okN
}

func classesCLI(run *report.Run, k string) { run.Count("c13cli_"+k, 1) }
