package props

import (
	"encoding/base64"
	"fmt"

	"strings"
	"verif/cells"
	"verif/drv"
	"verif/genrun"
	"verif/report"
	"verif/spec"
)

// c13Served is the compiled half of C13: the served body (and the compiled constant) through real
// packages, under base-path forms, spec names, middleware stacks and handler installed/nil.
var c13Served = func(run *report.Run, env *Env) {
	base, _, _ := cells.Base()
	baseDoc := base.YAML()
	var states []BState
	add := func(id string, specDoc, raw []byte, bf cells.BaseForm, name string) {
		sp := specDoc
		if len(bf.Servers) > 0 {
			sp = cells.WithBase(base, bf).YAML()
		}
		pl := &drv.SpecFilePayload{State: id, RawB64: base64.StdEncoding.EncodeToString(raw), Base: bf.Want, SpecName: name}
		states = append(states, BState{ID: id, Attrs: mergeAttrs(c13Shape(raw), map[string]string{"base": bf.Name, "specName": name}),
			Gen: &genrun.Job{Spec: sp, Raw: raw, RawSet: true, BasePath: bf.Flag, SpecName: name}, Prop: "C13", Payload: pl})
	}
	maxLen := 2
	if run.Tier == "thorough" {
		maxLen = 3
	}
	none := cells.BaseFormByName("none")
	for _, raw := range allStrings(c13Alphabet, 0, maxLen) {
		add(fmt.Sprintf("served:bytes:%q", raw), baseDoc, raw, none, "openapi.yaml")
	}
	for i, raw := range [][]byte{baseDoc, []byte("a: `b`\r\nc: \"d\\e\"\r\n"), []byte(`{"openapi":"3.0.3","x":"\\` + "`" + `"}`)} {
		for _, bn := range []string{"none", "v1", "v1slash", "flag", "vars", "slash"} {
			for _, name := range []string{"openapi.yaml", "spec.json"} {
				add(fmt.Sprintf("served:doc%d:base=%s:name=%s", i, bn, name), baseDoc, raw, cells.BaseFormByName(bn), name)
			}
			// spec names that URL escaping would change: the route is compared with the decoded request path
			if i == 0 && (bn == "none" || bn == "v1") {
				for _, name := range []string{"pet shop.yaml", "späc.yaml", "a+b.yaml"} {
					add(fmt.Sprintf("served:doc%d:base=%s:name=%s", i, bn, name), baseDoc, raw, cells.BaseFormByName(bn), name)
				}
			}
		}
	}
	// operations whose templates also match the spec URL: the spec route still wins
	for i, tmpl := range []string{"/{x}", "/openapi.yaml", "/{x}/{y}"} {
		for _, bn := range []string{"none", "v1"} {
			bf := cells.BaseFormByName(bn)
			sp := &spec.Spec{Servers: bf.Servers, Paths: []*spec.PathItem{{Template: tmpl, Ops: []*spec.Op{{Method: "GET", Responses: []*spec.Response{{Status: "default", Desc: "d"}}}}}}}
			for _, seg := range []string{"x", "y"} {
				if strings.Contains(tmpl, "{"+seg+"}") {
					sp.Paths[0].Params = append(sp.Paths[0].Params, &spec.Param{Name: seg, In: "path", Required: true, Schema: spec.T("string")})
				}
			}
			raw := sp.YAML()
			id := fmt.Sprintf("served:overlap%d:%s:base=%s", i, tmpl, bn)
			pl := &drv.SpecFilePayload{State: id, RawB64: base64.StdEncoding.EncodeToString(raw), Base: bf.Want, SpecName: "openapi.yaml"}
			states = append(states, BState{ID: id, Attrs: mergeAttrs(c13Shape(raw), map[string]string{"base": bf.Name, "overlap": tmpl}), Gen: &genrun.Job{Spec: raw, BasePath: bf.Flag}, Prop: "C13", Payload: pl})
		}
	}
	st := RunBatch(run, env, states, 250)
	run.Cov["served_states"] = st.Healthy
	run.Cov["served_requests"] = st.Counters["requests"]
	run.Cov["served_masked"] = st.MaskedWhy
	if s, ok := run.Cov["states"].(int64); ok {
		run.Cov["states"] = s + int64(st.Healthy)
	}
	if t, ok := run.Cov["transitions"].(int64); ok {
		run.Cov["transitions"] = t + st.Counters["requests"]
		run.Cov["traces_validated_against_impl"] = t + st.Counters["requests"]
	}
}
