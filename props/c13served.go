package props

import (
	"encoding/base64"
	"fmt"

	"verif/cells"
	"verif/drv"
	"verif/genrun"
	"verif/report"
)

// c13Served is the compiled half of C13: the served body (and the compiled constant) through real
// packages, under base-path forms, spec names, middleware stacks and handler installed/nil.
var c13Served = func(run *report.Run, env *Env) {
	base, _, _ := cells.Base()
	baseDoc := base.YAML()
	var states []BState
	add := func(id string, specDoc, raw []byte, bf cells.BaseForm, name string) {
		sp := specDoc
		if len(bf.Servers) > 0 {
			sp = cells.WithBase(base, bf).YAML()
		}
		pl := &drv.SpecFilePayload{State: id, RawB64: base64.StdEncoding.EncodeToString(raw), Base: bf.Want, SpecName: name}
		states = append(states, BState{ID: id, Attrs: mergeAttrs(c13Shape(raw), map[string]string{"base": bf.Name, "specName": name}),
			Gen: &genrun.Job{Spec: sp, Raw: raw, RawSet: true, BasePath: bf.Flag, SpecName: name}, Prop: "C13", Payload: pl})
	}
	maxLen := 2
	if run.Tier == "thorough" {
		maxLen = 3
	}
	none := cells.BaseFormByName("none")
	for _, raw := range allStrings(c13Alphabet, 0, maxLen) {
		add(fmt.Sprintf("served:bytes:%q", raw), baseDoc, raw, none, "openapi.yaml")
	}
	for i, raw := range [][]byte{baseDoc, []byte("a: `b`\r\nc: \"d\\e\"\r\n"), []byte(`{"openapi":"3.0.3","x":"\\` + "`" + `"}`)} {
		for _, bn := range []string{"none", "v1", "v1slash", "flag", "vars", "slash"} {
			for _, name := range []string{"openapi.yaml", "spec.json"} {
				add(fmt.Sprintf("served:doc%d:base=%s:name=%s", i, bn, name), baseDoc, raw, cells.BaseFormByName(bn), name)
			}
		}
	}
	st := RunBatch(run, env, states, 250)
	run.Cov["served_states"] = st.Healthy
	run.Cov["served_requests"] = st.Counters["requests"]
	run.Cov["served_masked"] = st.MaskedWhy
	if s, ok := run.Cov["states"].(int64); ok {
		run.Cov["states"] = s + int64(st.Healthy)
	}
	if t, ok := run.Cov["transitions"].(int64); ok {
		run.Cov["transitions"] = t + st.Counters["requests"]
		run.Cov["traces_validated_against_impl"] = t + st.Counters["requests"]
	}
}
