package props

import "verif/report"

// c13Served is the compiled half (served body, middlewares bypassed); filled in with the batch engine.
var c13Served = func(run *report.Run, env *Env) {}
