package props

import (
	"encoding/json"
	"fmt"
	"os"
	"path/filepath"
	"sort"
	"strings"
	"sync"
	"time"

	"verif/batch"
	"verif/drv"
	"verif/genrun"
	"verif/report"
)

// BState is one state of a behavioural (compiled) check: a spec + flags to generate, and the driver
// job(s) to run against the generated package.
type BState struct {
	ID      string
	Attrs   map[string]string
	Gen     *genrun.Job // Spec and flags; OutDir/Package are filled in here
	Prop    string      // driver handler
	Payload any
	Pair    *genrun.Job // optional second package (differential properties)
}

type BatchStats struct {
	States, Healthy, Masked int
	MaskedWhy               map[string]int
	Counters                map[string]int64
}

// RunBatch generates every state, compiles the healthy ones in batches and runs the driver jobs.
// Violations are forwarded to run with the state's attrs merged in.
func RunBatch(run *report.Run, env *Env, states []BState, chunk int) *BatchStats {
	st := &BatchStats{States: len(states), MaskedWhy: map[string]int{}, Counters: map[string]int64{}}
	defer batch.CleanupCache()
	for start := 0; start < len(states); start += chunk {
		if run.OutOfTime() {
			run.Cap(fmt.Sprintf("time budget: %d of %d states explored", start, len(states)))
			break
		}
		end := min(start+chunk, len(states))
		part := states[start:end]
		root := filepath.Join(env.Scratch, fmt.Sprintf("batch%04d", start/chunk))
		os.MkdirAll(filepath.Join(root, "gen"), 0o755)
		var jobs []*genrun.Job
		type ref struct {
			state int
			pair  bool
		}
		var refs []ref
		for i, s := range part {
			name := fmt.Sprintf("p%05d", start+i)
			g := *s.Gen
			g.ID = name
			jobs = append(jobs, batch.GenJob(root, name, &g))
			refs = append(refs, ref{i, false})
			if s.Pair != nil {
				g2 := *s.Pair
				g2.ID = name + "b"
				jobs = append(jobs, batch.GenJob(root, name+"b", &g2))
				refs = append(refs, ref{i, true})
			}
		}
		t0 := time.Now()
		results := env.Pool.RunAll(jobs, nil)
		dbg("batch %d: generated %d packages in %v", start/chunk, len(jobs), time.Since(t0))
		healthy := map[int]bool{}
		unhealthy := map[int]string{}
		unhealthyMsg := map[int]string{}
		for k, r := range results {
			if r.Outcome == "internal" {
				internal("generate %s: %s", part[refs[k].state].ID, r.Msg)
			}
			if !r.Healthy() {
				why := r.Outcome
				if r.Outcome == genrun.Success {
					why = "does-not-compile"
				}
				if _, done := unhealthy[refs[k].state]; !done {
					unhealthy[refs[k].state] = why
					msg := r.Msg
					if len(r.TypeErr) > 0 {
						msg = r.TypeErr[0]
					} else if len(r.SyntaxErr) > 0 {
						msg = r.SyntaxErr[0]
					}
					unhealthyMsg[refs[k].state] = msg
				}
				os.RemoveAll(jobs[k].OutDir)
			}
		}
		var pkgs []string
		for i := range part {
			if why, bad := unhealthy[i]; bad {
				st.Masked++
				st.MaskedWhy[why]++
				noteMasked(run, part[i], why, unhealthyMsg[i])
				// remove the twin as well
				os.RemoveAll(batch.PkgDir(root, fmt.Sprintf("p%05d", start+i)))
				os.RemoveAll(batch.PkgDir(root, fmt.Sprintf("p%05db", start+i)))
				continue
			}
			healthy[i] = true
			pkgs = append(pkgs, fmt.Sprintf("p%05d", start+i))
			if part[i].Pair != nil {
				pkgs = append(pkgs, fmt.Sprintf("p%05db", start+i))
			}
		}
		if len(pkgs) == 0 {
			os.RemoveAll(root)
			continue
		}
		t0 = time.Now()
		b, err := batch.Build(root, pkgs)
		if err != nil {
			internal("%v", err)
		}
		dbg("batch %d: built %d packages in %v", start/chunk, len(pkgs), time.Since(t0))
		t0 = time.Now()
		live := map[string]bool{}
		for _, p := range b.Pkgs {
			live[p] = true
		}
		var djobs []drv.Job
		for i, s := range part {
			name := fmt.Sprintf("p%05d", start+i)
			if !healthy[i] {
				continue
			}
			if !live[name] || (s.Pair != nil && !live[name+"b"]) {
				st.Masked++
				st.MaskedWhy["go-build-failed"]++
				continue
			}
			pl, _ := json.Marshal(s.Payload)
			j := drv.Job{ID: name, Pkg: name, Prop: s.Prop, Payload: pl}
			if s.Pair != nil {
				j.Pkg2 = name + "b"
			}
			djobs = append(djobs, j)
		}
		res, err := b.Run(djobs)
		if err != nil {
			internal("%v", err)
		}
		dbg("batch %d: ran %d jobs in %v", start/chunk, len(djobs), time.Since(t0))
		ids := make([]string, 0, len(res))
		for id := range res {
			ids = append(ids, id)
		}
		sort.Strings(ids)
		for _, id := range ids {
			r := res[id]
			var idx int
			fmt.Sscanf(id, "p%d", &idx)
			s := states[idx]
			if r.Internal != "" {
				internal("driver fault on %s: %s", s.ID, r.Internal)
			}
			st.Healthy++
			for k, v := range r.Counters {
				if len(k) > 5 && k[:5] == "viol:" {
					continue
				}
				st.Counters[k] += v
			}
			for _, v := range r.Violations {
				sa := map[string]string{}
				for k, x := range s.Attrs {
					if k == "kind" {
						k = "skind" // the cell's schema kind; "kind" is the violation kind
					}
					sa[k] = x
				}
				run.Violate(&report.Violation{Attrs: mergeAttrs(sa, v.Attrs), State: s.ID, Input: v.Input, Observed: v.Observed, Expected: v.Expected,
					Detail: map[string]any{"job": s.Gen, "pair": s.Pair, "prop": s.Prop, "payload": s.Payload, "driver": v.Detail}})
			}
			for _, smp := range r.Samples {
				if idx%37 == 0 {
					run.Sample(smp)
				}
			}
		}
		if len(djobs) != len(res) {
			internal("batch returned %d results for %d jobs", len(res), len(djobs))
		}
		os.RemoveAll(root)
	}
	return st
}

func dbg(format string, a ...any) {
	if os.Getenv("VERIF_DEBUG") != "" {
		fmt.Fprintf(os.Stderr, format+"\n", a...)
	}
}

// ---- states that cannot be observed ---------------------------------------------------------------------
//
// A state whose package does not generate or does not compile cannot be driven; on the unchanged tree
// these are the states behind C01's known findings and they are listed in masked_baseline.jsonl (written
// by tools/mkmasked.sh, never at check time). A state that is unobservable WITHOUT being listed is a
// violation of the property under check: no behaviour at all exists where the unchanged tree has one.

var (
	maskedOnce     sync.Once
	maskedBaseline map[string]bool
)

func maskedKey(prop, id string) string { return prop + "\x00" + id }

func noteMasked(run *report.Run, s BState, why, msg string) {
	maskedOnce.Do(func() {
		maskedBaseline = map[string]bool{}
		bs, err := os.ReadFile(filepath.Join(report.VerifDir, "masked_baseline.jsonl"))
		if err != nil {
			return
		}
		for _, l := range strings.Split(string(bs), "\n") {
			var e struct{ Check, State string }
			if json.Unmarshal([]byte(l), &e) == nil && e.Check != "" {
				maskedBaseline[maskedKey(e.Check, e.State)] = true
			}
		}
	})
	if fn := os.Getenv("VERIF_MASKED_OUT"); fn != "" {
		if f, err := os.OpenFile(fn, os.O_APPEND|os.O_CREATE|os.O_WRONLY, 0o644); err == nil {
			bs, _ := json.Marshal(map[string]string{"check": s.Prop, "state": s.ID, "why": why})
			f.Write(append(bs, '\n'))
			f.Close()
		}
		return
	}
	if maskedBaseline[maskedKey(s.Prop, s.ID)] {
		return
	}
	sa := map[string]string{}
	for k, x := range s.Attrs {
		if k == "kind" {
			k = "skind"
		}
		sa[k] = x
	}
	attrs := mergeAttrs(sa, map[string]string{"kind": "state-unobservable", "why": why, "diagclass": DiagClass(msg)})
	run.Violate(&report.Violation{Attrs: attrs, State: s.ID, Observed: "the package generated for this state cannot be driven (" + why + "): " + trunc(msg, 300),
		Expected: "a package that generates and compiles, as on the unchanged tree (the state is not among those listed as unobservable in masked_baseline.jsonl)", Detail: map[string]any{"job": s.Gen}})
}
