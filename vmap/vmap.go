// Package vmap owns the iteration order of maps in instrumented copies of goag and kin-openapi: every
// `range` over a map (and every maps.Keys/Values call) is rewritten to iterate vmap.Pairs(site, m),
// whose order is dictated by the explorer. Choice 0 at a point is the canonical (sorted) order; the
// other choices are the other permutations of the keys.
package vmap

import (
	"fmt"
	"reflect"
	"sort"
	"sync"
)

type Pair[K comparable, V any] struct {
	K K
	V V
}

// Point is one dynamic map iteration with at least two keys.
type Point struct {
	Site   string `json:"site"`
	N      int    `json:"n"`      // number of keys
	Choice int    `json:"choice"` // permutation index taken (0 = sorted)
	Alts   int    `json:"alts"`   // number of permutations available at this point
}

var (
	mu     sync.Mutex
	prefix []int   // choices to replay
	trace  []Point // points of the current run
	// Full: enumerate all n! permutations up to this many keys; above, a reduced set
	// (adjacent transpositions, reversal, rotations).
	Full = 5
)

// Begin starts a run that replays the given choices and takes choice 0 afterwards.
func Begin(choices []int) {
	mu.Lock()
	prefix = append([]int{}, choices...)
	trace = trace[:0]
	mu.Unlock()
}

// End returns the points of the run.
func End() []Point {
	mu.Lock()
	defer mu.Unlock()
	return append([]Point{}, trace...)
}

func factorial(n int) int {
	f := 1
	for i := 2; i <= n; i++ {
		f *= i
	}
	return f
}

// NumAlts is the number of orders explored for n keys.
func NumAlts(n int) int {
	if n <= Full {
		return factorial(n)
	}
	return 1 + (n - 1) + 1 + (n - 1) // identity, adjacent transpositions, reversal, rotations
}

// perm returns the choice-th order of 0..n-1.
func perm(n, choice int) []int {
	idx := make([]int, n)
	for i := range idx {
		idx[i] = i
	}
	if choice == 0 {
		return idx
	}
	if n <= Full {
		// choice-th permutation in lexicographic order (factorial number system)
		avail := append([]int{}, idx...)
		out := make([]int, 0, n)
		c := choice
		for i := n; i >= 1; i-- {
			f := factorial(i - 1)
			j := c / f
			c %= f
			out = append(out, avail[j])
			avail = append(avail[:j], avail[j+1:]...)
		}
		return out
	}
	c := choice - 1
	switch {
	case c < n-1:
		idx[c], idx[c+1] = idx[c+1], idx[c]
	case c == n-1:
		for i, j := 0, n-1; i < j; i, j = i+1, j-1 {
			idx[i], idx[j] = idx[j], idx[i]
		}
	default:
		r := c - (n - 1) // rotate by r
		out := make([]int, n)
		for i := range out {
			out[i] = idx[(i+r)%n]
		}
		return out
	}
	return idx
}

func next(site string, n int) []int {
	mu.Lock()
	defer mu.Unlock()
	choice := 0
	i := len(trace)
	alts := NumAlts(n)
	if i < len(prefix) {
		choice = prefix[i]
		if choice >= alts {
			panic(fmt.Sprintf("vmap: replay divergence at point %d (%s): choice %d of %d", i, site, choice, alts))
		}
	}
	trace = append(trace, Point{Site: site, N: n, Choice: choice, Alts: alts})
	return perm(n, choice)
}

func keyLess(a, b any) bool {
	va, vb := reflect.ValueOf(a), reflect.ValueOf(b)
	switch va.Kind() {
	case reflect.String:
		return va.String() < vb.String()
	case reflect.Int, reflect.Int8, reflect.Int16, reflect.Int32, reflect.Int64:
		return va.Int() < vb.Int()
	case reflect.Uint, reflect.Uint8, reflect.Uint16, reflect.Uint32, reflect.Uint64, reflect.Uintptr:
		return va.Uint() < vb.Uint()
	case reflect.Ptr, reflect.UnsafePointer, reflect.Chan, reflect.Func:
		return va.Pointer() < vb.Pointer()
	}
	return fmt.Sprintf("%v", a) < fmt.Sprintf("%v", b)
}

// Pairs returns the entries of m in the order the explorer dictates.
func Pairs[K comparable, V any](site string, m map[K]V) []Pair[K, V] {
	out := make([]Pair[K, V], 0, len(m))
	for k, v := range m {
		out = append(out, Pair[K, V]{k, v})
	}
	sort.Slice(out, func(i, j int) bool { return keyLess(out[i].K, out[j].K) })
	if len(out) < 2 {
		return out
	}
	p := next(site, len(out))
	res := make([]Pair[K, V], len(out))
	for i, j := range p {
		res[i] = out[j]
	}
	return res
}

// Keys is the owned replacement of golang.org/x/exp/maps.Keys.
func Keys[K comparable, V any](site string, m map[K]V) []K {
	ps := Pairs(site, m)
	out := make([]K, len(ps))
	for i, p := range ps {
		out[i] = p.K
	}
	return out
}

// Values is the owned replacement of golang.org/x/exp/maps.Values.
func Values[K comparable, V any](site string, m map[K]V) []V {
	ps := Pairs(site, m)
	out := make([]V, len(ps))
	for i, p := range ps {
		out[i] = p.V
	}
	return out
}
