// Package vsched is a cooperative controlled scheduler with a preemption-bounded depth-first explorer
// (iterative context bounding). Instrumented generated code calls P before every statement; exactly
// one logical thread runs at a time and the explorer decides who continues at every point.
package vsched

import (
	"fmt"
	"runtime/debug"
	"sort"
	"strings"
	"sync"
)

type Access struct {
	Thread int
	Var    string
	Write  bool
	Loc    string
}

type point struct {
	enabled        []int // canonical order: running thread first if still enabled, then ascending ids
	runningEnabled bool
	chosen         int // index into enabled
}

type thread struct {
	id     int
	resume chan struct{}
	done   bool
	panic  string
}

// Execution is one complete run under one schedule.
type Execution struct {
	Choices  []int
	Points   int
	Accesses []Access
	Panics   []string
	Livelock bool
	Finished []int // thread ids in the order they completed
	Switches int   // context switches of the schedule
	Trace    []string // thread:loc per step (kept only when recording)

	points []point
}

type sched struct {
	mu      sync.Mutex
	threads []*thread
	cur     int
	parked  chan int // thread id that parked or finished
	prefix  []int
	x       *Execution
	horizon int
	record  bool
	active  bool
}

var s *sched

// P is a scheduling point placed before a statement of instrumented code; acc lists the shared
// locations the statement touches ("r:name" / "w:name").
func P(loc string, acc ...string) {
	sc := s
	if sc == nil || !sc.active {
		return
	}
	t := sc.threads[sc.cur]
	for _, a := range acc {
		sc.x.Accesses = append(sc.x.Accesses, Access{Thread: t.id, Var: a[2:], Write: a[0] == 'w', Loc: loc})
	}
	if sc.record {
		sc.x.Trace = append(sc.x.Trace, fmt.Sprintf("%d:%s", t.id, loc))
	}
	// hand control to the scheduler and wait to be resumed
	sc.parked <- t.id
	<-t.resume
}

// Yield is a scheduling point in harness code.
func Yield(loc string) { P(loc) }

// Current returns the id of the running logical thread (-1 outside an exploration).
func Current() int {
	if s == nil || !s.active {
		return -1
	}
	return s.cur
}

// run executes bodies under the schedule given by prefix (choice 0 afterwards).
func run(bodies []func(), prefix []int, horizon int, record bool) *Execution {
	sc := &sched{parked: make(chan int), prefix: prefix, x: &Execution{}, horizon: horizon, record: record}
	for i := range bodies {
		sc.threads = append(sc.threads, &thread{id: i, resume: make(chan struct{})})
	}
	s = sc
	sc.active = true
	for i, b := range bodies {
		t, b := sc.threads[i], b
		go func() {
			<-t.resume
			defer func() {
				if p := recover(); p != nil {
					t.panic = fmt.Sprintf("thread %d: %v\n%s", t.id, p, trimStack(string(debug.Stack())))
				}
				t.done = true
				sc.parked <- t.id
			}()
			b()
		}()
	}
	running := -1
	steps := 0
	for {
		var enabled []int
		runningEnabled := false
		if running >= 0 && !sc.threads[running].done {
			enabled = append(enabled, running)
			runningEnabled = true
		}
		for _, t := range sc.threads {
			if !t.done && t.id != running {
				enabled = append(enabled, t.id)
			}
		}
		if len(enabled) == 0 {
			break
		}
		choice := 0
		i := len(sc.x.points)
		if i < len(prefix) {
			choice = prefix[i]
			if choice >= len(enabled) {
				panic(fmt.Sprintf("vsched: replay divergence at point %d: choice %d of %d enabled", i, choice, len(enabled)))
			}
		}
		sc.x.points = append(sc.x.points, point{enabled: enabled, runningEnabled: runningEnabled, chosen: choice})
		sc.x.Choices = append(sc.x.Choices, choice)
		if running >= 0 && enabled[choice] != running {
			sc.x.Switches++
		}
		running = enabled[choice]
		sc.cur = running
		sc.threads[running].resume <- struct{}{}
		<-sc.parked
		if sc.threads[running].done {
			sc.x.Finished = append(sc.x.Finished, running)
		}
		steps++
		if steps > horizon {
			sc.x.Livelock = true
			break
		}
	}
	sc.active = false
	for _, t := range sc.threads {
		if t.panic != "" {
			sc.x.Panics = append(sc.x.Panics, t.panic)
		}
	}
	sc.x.Points = len(sc.x.points)
	return sc.x
}

func trimStack(st string) string {
	if len(st) > 2000 {
		return st[:2000]
	}
	return st
}

func (x *Execution) preemptionsBefore(i int) int {
	n := 0
	for k := 0; k < i; k++ {
		p := x.points[k]
		if p.runningEnabled && p.chosen != 0 {
			n++
		}
	}
	return n
}

// Races returns the conflicting access pairs of the execution: different threads, same location, at
// least one write. The code under test uses no synchronisation, so every such pair is a data race.
func (x *Execution) Races() []string {
	type st struct {
		readers, writers map[int]string
	}
	vars := map[string]*st{}
	for _, a := range x.Accesses {
		v := vars[a.Var]
		if v == nil {
			v = &st{map[int]string{}, map[int]string{}}
			vars[a.Var] = v
		}
		if a.Write {
			v.writers[a.Thread] = a.Loc
		} else {
			v.readers[a.Thread] = a.Loc
		}
	}
	var out []string
	for name, v := range vars {
		for wt, wl := range v.writers {
			for ot, ol := range v.writers {
				if ot > wt {
					out = append(out, fmt.Sprintf("%s: write by thread %d at %s / write by thread %d at %s", name, wt, wl, ot, ol))
				}
			}
			for rt, rl := range v.readers {
				if rt != wt {
					out = append(out, fmt.Sprintf("%s: write by thread %d at %s / read by thread %d at %s", name, wt, wl, rt, rl))
				}
			}
		}
	}
	sort.Strings(out)
	return out
}

type Stats struct {
	Executions   int64
	Points       int64 // scheduling decisions over all executions
	MaxPoints    int
	BoundReached int  // highest preemption bound completed
	Capped       bool // the execution cap stopped the search
	Outcomes     map[string]int64
}

type Explorer struct {
	Bound   int   // preemption bound
	MaxExec int64 // cap on executions (0 = none)
	Horizon int
	// Make builds fresh state for one execution and returns the thread bodies.
	Make func() []func()
	// Check judges one execution; a non-empty result is a violation description. outcome is a short
	// label of what the execution observed (for the distinct-outcome count).
	Check func(x *Execution) (violation string, outcome string)
	// OnViolation receives the violating execution (already replayed for determinism).
	OnViolation func(x *Execution, violation string)

	stats Stats
	stop  bool
}

// Explore runs iterative context bounding: all schedules with 0 preemptions, then 1, ... up to Bound.
func (e *Explorer) Explore() Stats {
	e.stats = Stats{Outcomes: map[string]int64{}, BoundReached: -1}
	if e.Horizon == 0 {
		e.Horizon = 100000
	}
	// determinism gate: the default schedule twice
	a := run(e.Make(), nil, e.Horizon, true)
	b := run(e.Make(), nil, e.Horizon, true)
	if strings.Join(a.Trace, ",") != strings.Join(b.Trace, ",") {
		if e.OnViolation != nil {
			e.OnViolation(a, "nondeterministic harness: the default schedule produced two different traces")
		}
		return e.stats
	}
	for bound := 0; bound <= e.Bound && !e.stop; bound++ {
		e.exploreFrom(nil, bound, bound)
		if !e.stop {
			e.stats.BoundReached = bound
		}
	}
	return e.stats
}

// exploreFrom explores all schedules extending prefix whose number of preemptions is exactly... at
// most `bound`; to avoid re-running schedules of lower bounds, `exact` requires the completed schedule
// to use exactly that many preemptions when > 0 (iterative deepening without duplicates).
func (e *Explorer) exploreFrom(prefix []int, bound, exact int) {
	if e.stop {
		return
	}
	x := run(e.Make(), prefix, e.Horizon, false)
	total := x.preemptionsBefore(len(x.points))
	if total == exact {
		e.stats.Executions++
		e.stats.Points += int64(len(x.points))
		if len(x.points) > e.stats.MaxPoints {
			e.stats.MaxPoints = len(x.points)
		}
		viol, outcome := e.Check(x)
		e.stats.Outcomes[outcome]++
		if viol != "" && e.OnViolation != nil {
			// replay twice before believing it
			r1 := run(e.Make(), x.Choices, e.Horizon, true)
			v1, _ := e.Check(r1)
			r2 := run(e.Make(), x.Choices, e.Horizon, true)
			v2, _ := e.Check(r2)
			if v1 == "" || v2 == "" || strings.Join(r1.Trace, ",") != strings.Join(r2.Trace, ",") {
				e.OnViolation(r1, "nondeterministic replay of a violating schedule: "+viol)
			} else {
				e.OnViolation(r1, v1)
			}
		}
		if e.MaxExec > 0 && e.stats.Executions >= e.MaxExec {
			e.stats.Capped = true
			e.stop = true
			return
		}
	}
	for i := len(prefix); i < len(x.points); i++ {
		p := x.points[i]
		cost := x.preemptionsBefore(i)
		for alt := 1; alt < len(p.enabled); alt++ {
			c := cost
			if p.runningEnabled {
				c++ // switching away from a runnable thread is a preemption
			}
			if c > bound {
				continue
			}
			np := append(append([]int{}, x.Choices[:i]...), alt)
			e.exploreFrom(np, bound, exact)
			if e.stop {
				return
			}
		}
	}
}
