// Package instr inserts scheduling points into GENERATED Go source (the output of goag, never /repo):
// a call vsched.P(loc, accesses...) before every statement of every function body. The accesses name
// the shared locations the statement touches: package-level variables and fields reached through an
// *API or *Client receiver/parameter. Semantics are unchanged: the inserted call has no data flow
// into the program.
package instr

import (
	"fmt"
	"go/ast"
	"go/token"
	"go/types"
	"sort"
	"strings"

	"verif/genrun"
)

type Stats struct {
	Points     int
	SharedVars map[string]bool
}

// Instrument returns instrumented copies of the generated files. mode "all": a point before every
// statement; mode "shared": only before statements that touch shared state (plus function entry).
func Instrument(files map[string][]byte, mode string) (map[string][]byte, *Stats, error) {
	fset, parsed, pkg, info, se, te := genrun.TypeCheck(files)
	if len(se) > 0 || len(te) > 0 || pkg == nil {
		return nil, nil, fmt.Errorf("generated package does not type-check: %v %v", se, te)
	}
	st := &Stats{SharedVars: map[string]bool{}}
	out := map[string][]byte{}
	for _, f := range parsed {
		name := fset.File(f.Pos()).Name()
		src := files[name]
		type ins struct {
			off  int
			text string
		}
		var inserts []ins
		off := func(p token.Pos) int { return fset.Position(p).Offset }
		accessesOf := func(stmt ast.Stmt) []string {
			acc := map[string]bool{}
			writes := map[ast.Expr]bool{}
			markWrite := func(e ast.Expr) {
				for {
					switch x := e.(type) {
					case *ast.ParenExpr:
						e = x.X
						continue
					case *ast.IndexExpr:
						e = x.X
						continue
					case *ast.StarExpr:
						e = x.X
						continue
					}
					break
				}
				writes[e] = true
			}
			ast.Inspect(stmt, func(n ast.Node) bool {
				switch x := n.(type) {
				case *ast.AssignStmt:
					for _, l := range x.Lhs {
						markWrite(l)
					}
				case *ast.IncDecStmt:
					markWrite(x.X)
				case *ast.UnaryExpr:
					if x.Op == token.AND {
						markWrite(x.X)
					}
				case *ast.CallExpr:
					// method call with pointer receiver on an addressable shared value
					if sel, ok := x.Fun.(*ast.SelectorExpr); ok {
						if s := info.Selections[sel]; s != nil && s.Kind() == types.MethodVal {
							if sig, ok := s.Obj().Type().(*types.Signature); ok && sig.Recv() != nil {
								if _, isPtr := sig.Recv().Type().(*types.Pointer); isPtr {
									if _, alreadyPtr := info.Types[sel.X].Type.(*types.Pointer); !alreadyPtr {
										markWrite(sel.X)
									}
								}
							}
						}
					}
				case *ast.FuncLit:
					return false // its body gets its own points
				}
				return true
			})
			ast.Inspect(stmt, func(n ast.Node) bool {
				switch x := n.(type) {
				case *ast.FuncLit:
					return false
				case *ast.Ident:
					if v, ok := info.Uses[x].(*types.Var); ok && v.Parent() == pkg.Scope() && !isSyncType(v.Type()) {
						k := "r:" + v.Name()
						if writes[ast.Expr(x)] {
							k = "w:" + v.Name()
						}
						acc[k] = true
						st.SharedVars[v.Name()] = true
					}
				case *ast.SelectorExpr:
					// field of a shared object reached through a pointer to API / Client
					if s := info.Selections[x]; s != nil && s.Kind() == types.FieldVal {
						if tv, ok := info.Types[x.X]; ok {
							if p, ok := tv.Type.(*types.Pointer); ok {
								if nt, ok := p.Elem().(*types.Named); ok && (nt.Obj().Name() == "API" || nt.Obj().Name() == "Client") {
									name := nt.Obj().Name() + "." + x.Sel.Name
									k := "r:" + name
									if writes[ast.Expr(x)] {
										k = "w:" + name
									}
									acc[k] = true
									st.SharedVars[name] = true
								}
							}
						}
					}
				}
				return true
			})
			var l []string
			for k := range acc {
				l = append(l, k)
			}
			sort.Strings(l)
			return l
		}
		addPoint := func(stmt ast.Stmt) {
			switch stmt.(type) {
			case *ast.LabeledStmt, *ast.EmptyStmt:
				return // a label must stay attached to its statement
			}
			acc := accessesOf(stmt)
			if mode == "shared" && len(acc) == 0 {
				return
			}
			pos := fset.Position(stmt.Pos())
			args := []string{fmt.Sprintf("%q", fmt.Sprintf("%s:%d", name, pos.Line))}
			for _, a := range acc {
				args = append(args, fmt.Sprintf("%q", a))
			}
			inserts = append(inserts, ins{off(stmt.Pos()), "vsched.P(" + strings.Join(args, ", ") + "); "})
			st.Points++
		}
		var walkBlock func(list []ast.Stmt)
		var walkStmt func(s ast.Stmt)
		walkStmt = func(s ast.Stmt) {
			ast.Inspect(s, func(n ast.Node) bool {
				switch x := n.(type) {
				case *ast.BlockStmt:
					walkBlock(x.List)
					return false
				case *ast.CaseClause:
					walkBlock(x.Body)
					return false
				case *ast.CommClause:
					walkBlock(x.Body)
					return false
				}
				return true
			})
		}
		walkBlock = func(list []ast.Stmt) {
			for _, s := range list {
				switch c := s.(type) {
				case *ast.CaseClause:
					walkBlock(c.Body)
					continue
				case *ast.CommClause:
					walkBlock(c.Body)
					continue
				}
				addPoint(s)
				walkStmt(s)
			}
		}
		for _, d := range f.Decls {
			if fd, ok := d.(*ast.FuncDecl); ok && fd.Body != nil {
				walkBlock(fd.Body.List)
			}
			// function literals in package-level var initialisers (e.g. LogError)
			if gd, ok := d.(*ast.GenDecl); ok {
				ast.Inspect(gd, func(n ast.Node) bool {
					if fl, ok := n.(*ast.FuncLit); ok {
						walkBlock(fl.Body.List)
						return false
					}
					return true
				})
			}
		}
		if len(inserts) == 0 {
			out[name] = src
			continue
		}
		sort.Slice(inserts, func(i, j int) bool { return inserts[i].off > inserts[j].off })
		res := append([]byte{}, src...)
		for _, in := range inserts {
			res = append(res[:in.off], append([]byte(in.text), res[in.off:]...)...)
		}
		pkgEnd := off(f.Name.End())
		out[name] = []byte(string(res[:pkgEnd]) + "\n\nimport vsched \"verif/vsched\"\n" + string(res[pkgEnd:]))
	}
	return out, st, nil
}

// isSyncType: values of sync / sync/atomic types are synchronisation objects, not plain shared memory.
func isSyncType(t types.Type) bool {
	if p, ok := t.(*types.Pointer); ok {
		t = p.Elem()
	}
	if n, ok := t.(*types.Named); ok && n.Obj().Pkg() != nil {
		pp := n.Obj().Pkg().Path()
		return pp == "sync" || pp == "sync/atomic"
	}
	return false
}
