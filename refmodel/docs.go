package refmodel

import (
	"encoding/json"
	"sort"
	"strconv"
	"strings"
	"time"

	"verif/spec"
)

// Document generator of property C08: JSON documents generated FROM the schema (never from goag's
// encoder), plus their single-fault mutations.

type J interface{ write(b *strings.Builder) }

type JRaw string
type KV struct {
	K string
	V J
}
type JObj []KV
type JArr []J

func (r JRaw) write(b *strings.Builder) { b.WriteString(string(r)) }
func (o JObj) write(b *strings.Builder) {
	b.WriteByte('{')
	for i, kv := range o {
		if i > 0 {
			b.WriteByte(',')
		}
		k, _ := json.Marshal(kv.K)
		b.Write(k)
		b.WriteByte(':')
		kv.V.write(b)
	}
	b.WriteByte('}')
}
func (a JArr) write(b *strings.Builder) {
	b.WriteByte('[')
	for i, v := range a {
		if i > 0 {
			b.WriteByte(',')
		}
		v.write(b)
	}
	b.WriteByte(']')
}

func Text(j J) string {
	var b strings.Builder
	j.write(&b)
	return b.String()
}

func jstr(s string) JRaw {
	bs, _ := json.Marshal(s)
	return JRaw(bs)
}

type Doc struct {
	JSON  string `json:"json"`
	Valid bool   `json:"valid"`
	Fault string `json:"fault,omitempty"` // missing | wrongtype
	Prop  string `json:"prop,omitempty"`  // the property the fault is at
	Note  string `json:"note,omitempty"`
}

type docGen struct {
	s *spec.Spec
}

// class: JSON type class of a schema ("" = cannot tell: any / oneOf).
func (g *docGen) class(sc *spec.Schema) string {
	sc = g.s.Resolve(sc)
	if sc == nil {
		return ""
	}
	switch {
	case len(sc.AllOf) > 0:
		return "object"
	case len(sc.OneOf) > 0 || len(sc.AnyOf) > 0:
		return ""
	}
	switch sc.Type {
	case "boolean":
		return "bool"
	case "integer", "number":
		return "number"
	case "string":
		return "string"
	case "array":
		return "array"
	case "object":
		return "object"
	}
	return ""
}

func (g *docGen) nullable(sc *spec.Schema) bool {
	// nullable on the $ref target counts (OpenAPI 3.0: nullable lives on the schema itself)
	r := g.s.Resolve(sc)
	return r != nil && r.Nullable
}

// leaves: JSON spellings of the leaf domains (boundary values, escapes, exponent forms).
func leaves(sc *spec.Schema) []J {
	switch sc.Type {
	case "boolean":
		return []J{JRaw("true"), JRaw("false")}
	case "integer":
		switch sc.Format {
		case "int32":
			return []J{JRaw("7"), JRaw("0"), JRaw("-1"), JRaw("2147483647"), JRaw("-2147483648")}
		default:
			return []J{JRaw("7"), JRaw("0"), JRaw("-1"), JRaw("9223372036854775807"), JRaw("-9223372036854775808"), JRaw("9007199254740993")}
		}
	case "number":
		if sc.Format == "float" {
			return []J{JRaw("1.5"), JRaw("0"), JRaw("-2.5e-7"), JRaw("1e2"), JRaw("3.4028235e38")}
		}
		return []J{JRaw("1.5"), JRaw("0"), JRaw("-2.5e-7"), JRaw("1e2"), JRaw("1.7976931348623157e308"), JRaw("5e-324"), JRaw("0.1")}
	case "string":
		if sc.Format == "date-time" {
			vals := []string{"2020-01-02T03:04:05Z", "2020-01-02T03:04:05.123456789+02:00", "0001-01-01T00:00:00Z"}
			// goag's private layout extension (a quoted Go layout literal): the documented wire form is the user's layout
			if ext, ok := sc.Ext["x-goag-go-time-format"].(string); ok {
				if layout, err := strconv.Unquote(ext); err == nil {
					for i, v := range vals {
						if t, err := time.Parse(time.RFC3339Nano, v); err == nil {
							vals[i] = t.Format(layout)
						}
					}
				}
			}
			var out []J
			for _, v := range vals {
				out = append(out, jstr(v))
			}
			return out
		}
		return []J{jstr("a"), jstr(""), jstr(`q"uote`), jstr(`back\slash`), jstr("<&>"), jstr(" "), jstr("é"), JRaw(`"\u0000"`), JRaw(`"é\n"`)}
	}
	return nil
}

// values returns valid JSON values for a schema, the first being the default; depth bounds recursion.
func (g *docGen) values(sc *spec.Schema, depth int) []J {
	sc = g.s.Resolve(sc)
	if sc == nil || depth > 4 {
		return []J{JRaw("1")}
	}
	if len(sc.AllOf) > 0 {
		// merge the members' default objects; then vary each member alone
		var defs []JObj
		for _, m := range sc.AllOf {
			vs := g.values(m, depth+1)
			o, _ := vs[0].(JObj)
			defs = append(defs, o)
		}
		merge := func(parts []JObj) JObj {
			var out JObj
			for _, p := range parts {
				out = append(out, p...)
			}
			return out
		}
		out := []J{merge(defs)}
		for i, m := range sc.AllOf {
			for _, alt := range g.values(m, depth+1)[1:] {
				o, ok := alt.(JObj)
				if !ok {
					continue
				}
				parts := append([]JObj{}, defs...)
				parts[i] = o
				out = append(out, merge(parts))
			}
		}
		return out
	}
	if len(sc.OneOf) > 0 {
		var out []J
		for _, v := range sc.OneOf {
			vs := g.values(v, depth+1)
			if sc.Disc != nil {
				// keep documents whose discriminator value selects this variant
				name := ""
				if v.Ref != "" {
					name = v.Ref
				}
				for _, x := range vs {
					if o, ok := x.(JObj); ok {
						o = setKey(o, sc.Disc.Prop, jstr(discValue(sc.Disc, name)))
						out = append(out, o)
					}
				}
				continue
			}
			n := len(vs)
			if n > 3 {
				n = 3
			}
			out = append(out, vs[:n]...)
		}
		return out
	}
	switch sc.Type {
	case "boolean", "integer", "number", "string":
		return leaves(sc)
	case "array":
		iv := g.values(sc.Items, depth+1)
		out := []J{JArr{iv[0]}, JArr{}}
		if len(iv) > 1 {
			out = append(out, JArr{iv[0], iv[1]})
			for _, v := range iv[2:] {
				out = append(out, JArr{v})
			}
		} else {
			out = append(out, JArr{iv[0], iv[0]})
		}
		if g.nullable(sc.Items) {
			out = append(out, JArr{JRaw("null"), iv[0]})
		}
		return out
	case "object":
		return g.objectValues(sc, depth)
	case "":
		if len(sc.Props) > 0 || sc.Add != nil || sc.AddBool != nil {
			return g.objectValues(sc, depth)
		}
		return []J{JRaw("1"), jstr("s"), JRaw(`{"k":[1]}`), JRaw("[1,2]"), JRaw("true")}
	}
	return []J{JRaw("1")}
}

func discValue(d *spec.Disc, schemaName string) string {
	ks := make([]string, 0, len(d.Mapping))
	for k := range d.Mapping {
		ks = append(ks, k)
	}
	sort.Strings(ks)
	for _, k := range ks {
		if d.Mapping[k] == schemaName {
			return k
		}
	}
	return schemaName // implicit mapping
}

func setKey(o JObj, k string, v J) JObj {
	out := append(JObj{}, o...)
	for i := range out {
		if out[i].K == k {
			out[i].V = v
			return out
		}
	}
	return append(out, KV{k, v})
}

func isReq(sc *spec.Schema, name string) bool {
	for _, r := range sc.Required {
		if r == name {
			return true
		}
	}
	return false
}

func (g *docGen) objectValues(sc *spec.Schema, depth int) []J {
	type pv struct {
		name string
		vals []J
		req  bool
		null bool
	}
	var ps []pv
	for _, p := range sc.Props {
		ps = append(ps, pv{p.Name, g.values(p.Schema, depth+1), isReq(sc, p.Name), g.nullable(p.Schema)})
	}
	full := JObj{}
	for _, p := range ps {
		full = append(full, KV{p.name, p.vals[0]})
	}
	out := []J{full}
	// every subset of optional properties (bounded to 4 optionals; more: each alone dropped + all dropped)
	var opt []int
	for i, p := range ps {
		if !p.req {
			opt = append(opt, i)
		}
	}
	if len(opt) <= 4 {
		for m := 1; m < 1<<len(opt); m++ {
			drop := map[int]bool{}
			for j, idx := range opt {
				if m&(1<<j) != 0 {
					drop[idx] = true
				}
			}
			o := JObj{}
			for i, p := range ps {
				if !drop[i] {
					o = append(o, KV{p.name, p.vals[0]})
				}
			}
			out = append(out, o)
		}
	} else {
		for _, idx := range opt {
			o := JObj{}
			for i, p := range ps {
				if i != idx {
					o = append(o, KV{p.name, p.vals[0]})
				}
			}
			out = append(out, o)
		}
		o := JObj{}
		for _, p := range ps {
			if p.req {
				o = append(o, KV{p.name, p.vals[0]})
			}
		}
		out = append(out, o)
	}
	// single-leaf sweeps and null where allowed
	for i, p := range ps {
		for _, v := range p.vals[1:] {
			o := append(JObj{}, full...)
			o[i].V = v
			out = append(out, o)
		}
		if p.null {
			o := append(JObj{}, full...)
			o[i].V = JRaw("null")
			out = append(out, o)
		}
	}
	// additional properties
	var addVals []J
	switch {
	case sc.Add != nil:
		addVals = g.values(sc.Add, depth+1)
	case sc.AddBool != nil && *sc.AddBool:
		addVals = []J{JRaw("1"), jstr("s"), JRaw(`{"k":[1]}`), JRaw("null")}
	}
	if addVals != nil {
		for _, k := range []string{"k", "a b", `q"uote`, `back\slash`} {
			out = append(out, append(append(JObj{}, full...), KV{k, addVals[0]}))
		}
		if len(addVals) > 1 {
			out = append(out, append(append(JObj{}, full...), KV{"k", addVals[0]}, KV{"k2", addVals[1]}))
		}
		// extras with all optionals dropped (declared keys absent, undeclared present)
		o := JObj{}
		for _, p := range ps {
			if p.req {
				o = append(o, KV{p.name, p.vals[0]})
			}
		}
		out = append(out, append(append(JObj{}, o...), KV{"k", addVals[0]}), append(append(JObj{}, o...), KV{"k", addVals[0]}, KV{"k2", addVals[0]}))
		if len(ps) == 0 {
			out = append(out, JObj{})
		}
	}
	// key order permutations of the full document (<= 4 keys)
	if n := len(full); n >= 2 && n <= 4 {
		perm := make([]int, n)
		for i := range perm {
			perm[i] = i
		}
		var rec func(k int)
		rec = func(k int) {
			if k == n {
				o := JObj{}
				for _, i := range perm {
					o = append(o, full[i])
				}
				out = append(out, o)
				return
			}
			for i := k; i < n; i++ {
				perm[k], perm[i] = perm[i], perm[k]
				rec(k + 1)
				perm[k], perm[i] = perm[i], perm[k]
			}
		}
		rec(0)
	}
	return out
}

var wrongTokens = map[string]J{"bool": JRaw("true"), "number": JRaw("1"), "string": jstr("s"), "array": JRaw("[]"), "object": JRaw("{}")}

// faults: single-fault mutations of the default document of an object-like schema: drop one required
// key; replace one declared property's value by a token of another JSON type. Recurses into nested
// object properties (the fault is named after the innermost property).
func (g *docGen) faults(sc *spec.Schema, depth int) []Doc {
	sc = g.s.Resolve(sc)
	if sc == nil || depth > 3 {
		return nil
	}
	var out []Doc
	if len(sc.AllOf) > 0 {
		def, _ := g.values(sc, depth)[0].(JObj)
		for _, m := range sc.AllOf {
			mr := g.s.Resolve(m)
			if mr == nil {
				continue
			}
			for _, p := range mr.Props {
				if isReq(mr, p.Name) {
					out = append(out, Doc{JSON: Text(dropKey(def, p.Name)), Fault: "missing", Prop: p.Name})
				}
				cls := g.class(p.Schema)
				if cls == "" {
					continue
				}
				for _, tc := range []string{"bool", "number", "string", "array", "object"} {
					if tc != cls {
						out = append(out, Doc{JSON: Text(setKey(def, p.Name, wrongTokens[tc])), Fault: "wrongtype", Prop: p.Name, Note: cls + "->" + tc})
					}
				}
			}
		}
		return out
	}
	if sc.Type == "array" {
		iv := g.faults(sc.Items, depth+1)
		for _, f := range iv {
			f.JSON = "[" + f.JSON + "]"
			out = append(out, f)
		}
		return out
	}
	if sc.Type != "object" && len(sc.Props) == 0 {
		return nil
	}
	def, _ := g.values(sc, depth)[0].(JObj)
	for _, p := range sc.Props {
		if isReq(sc, p.Name) {
			out = append(out, Doc{JSON: Text(dropKey(def, p.Name)), Fault: "missing", Prop: p.Name})
		}
		cls := g.class(p.Schema)
		if cls != "" {
			for _, tc := range []string{"bool", "number", "string", "array", "object"} {
				if tc != cls {
					out = append(out, Doc{JSON: Text(setKey(def, p.Name, wrongTokens[tc])), Fault: "wrongtype", Prop: p.Name, Note: cls + "->" + tc})
				}
			}
		}
		// nested faults
		for _, f := range g.faults(p.Schema, depth+1) {
			var inner J = JRaw(f.JSON)
			f.JSON = Text(setKey(def, p.Name, inner))
			out = append(out, f)
		}
	}
	return out
}

func dropKey(o JObj, k string) JObj {
	var out JObj
	for _, kv := range o {
		if kv.K != k {
			out = append(out, kv)
		}
	}
	if out == nil {
		out = JObj{}
	}
	return out
}

// Docs enumerates the valid documents of a schema and their single-fault mutants.
func Docs(s *spec.Spec, sc *spec.Schema) []Doc {
	g := &docGen{s}
	seen := map[string]bool{}
	var out []Doc
	for _, v := range g.values(sc, 0) {
		t := Text(v)
		if !seen[t] {
			seen[t] = true
			out = append(out, Doc{JSON: t, Valid: true})
		}
	}
	if g.nullable(sc) {
		out = append(out, Doc{JSON: "null", Valid: true})
	}
	for _, f := range g.faults(sc, 0) {
		if !seen[f.JSON] {
			seen[f.JSON] = true
			out = append(out, f)
		}
	}
	return out
}
