package refmodel

// Security model of property C11.

type Scheme struct {
	Key  string `json:"key"`
	Kind string `json:"kind"` // bearer | apikey-hdr | apikey-query | unsupported
	Name string `json:"name,omitempty"`
}

type SecOp struct {
	Method    string     `json:"method"`
	Path      string     `json:"path"`
	Effective [][]string `json:"effective"` // alternatives (disjunction) of conjunctions of scheme keys; empty = public
}

// Cred is the state of one scheme's credential and authenticator in a request/configuration.
type Cred struct {
	Present   bool // credential supplied
	Valid     bool // the installed authenticator would accept it
	Installed bool // authenticator installed (non-nil)
}

type SecVerdict struct {
	HandlerRuns bool
	// AcceptedBy: scheme keys whose context mark the handler may see (members of accepted alternatives)
	AcceptedBy map[string]bool
	Public     bool
}

// Secure: the handler runs iff the operation is public or some alternative is fully accepted.
func Secure(op SecOp, schemes map[string]Scheme, creds map[string]Cred) SecVerdict {
	v := SecVerdict{AcceptedBy: map[string]bool{}}
	if len(op.Effective) == 0 {
		v.Public, v.HandlerRuns = true, true
		return v
	}
	for _, alt := range op.Effective {
		ok := len(alt) > 0
		for _, k := range alt {
			s, known := schemes[k]
			c := creds[k]
			if !known || s.Kind == "unsupported" || !c.Present || !c.Valid || !c.Installed {
				ok = false
			}
		}
		if len(alt) == 0 {
			// `security: [{}]` — an empty requirement object means anonymous access is allowed
			ok = true
		}
		if ok {
			v.HandlerRuns = true
			for _, k := range alt {
				v.AcceptedBy[k] = true
			}
		}
	}
	return v
}
