// Package refmodel holds the reference models: small functions written from the property
// statements (never from goag's source) that say which observations are allowed for an input.
package refmodel

import "strings"

type Template struct {
	Path    string   `json:"path"`
	Methods []string `json:"methods"`
}

func (t Template) Has(m string) bool {
	for _, x := range t.Methods {
		if x == m {
			return true
		}
	}
	return false
}

// Segs splits a path after its leading slash: "/a/" -> [a, ""], "/" -> [""].
func Segs(p string) []string {
	return strings.Split(strings.TrimPrefix(p, "/"), "/")
}

func IsVar(seg string) bool { return strings.HasPrefix(seg, "{") && strings.HasSuffix(seg, "}") }

// Rest strips the normalised base path (no trailing slash; "" = none) from a request path. ok is
// false when the request is not beneath the base path.
func Rest(base, reqPath string) (string, bool) {
	if base == "" {
		if strings.HasPrefix(reqPath, "/") {
			return reqPath, true
		}
		return "", false
	}
	if !strings.HasPrefix(reqPath, base) {
		return "", false
	}
	rest := reqPath[len(base):]
	if !strings.HasPrefix(rest, "/") {
		return "", false
	}
	return rest, true
}

// matchKind: 0 = no match, 1 = weak (an empty request segment aligned with a variable), 2 = strict.
func matchKind(tsegs, rsegs []string) int {
	if len(tsegs) != len(rsegs) {
		return 0
	}
	kind := 2
	for i, t := range tsegs {
		if IsVar(t) {
			if rsegs[i] == "" {
				kind = 1
			}
			continue
		}
		if t != rsegs[i] {
			return 0
		}
	}
	return kind
}

// dominates: a is at least as literal as b everywhere and strictly more somewhere.
func dominates(a, b []string) bool {
	strict := false
	for i := range a {
		av, bv := IsVar(a[i]), IsVar(b[i])
		if av && !bv {
			return false
		}
		if !av && bv {
			strict = true
		}
	}
	return strict
}

type MatchResult struct {
	Allowed    map[int]bool // template indexes the request may be dispatched to
	NotFoundOK bool
	Candidates int // templates matching the path (any method)
}

// Match is the OpenAPI path-matching model of property C03. base is the normalised base path.
func Match(ts []Template, base, reqPath, method string) MatchResult {
	res := MatchResult{Allowed: map[int]bool{}}
	rest, ok := Rest(base, reqPath)
	if !ok {
		res.NotFoundOK = true
		return res
	}
	rsegs := Segs(rest)
	type cand struct {
		i    int
		segs []string
		kind int
	}
	var cs []cand
	for i, t := range ts {
		ts := Segs(t.Path)
		if k := matchKind(ts, rsegs); k > 0 {
			cs = append(cs, cand{i, ts, k})
		}
	}
	res.Candidates = len(cs)
	strictWithMethod := false
	for _, c := range cs {
		if !ts[c.i].Has(method) {
			continue
		}
		if c.kind == 2 {
			strictWithMethod = true
		}
		dominated := false
		for _, d := range cs {
			if d.i != c.i && d.kind == 2 && ts[d.i].Has(method) && dominates(d.segs, c.segs) {
				dominated = true
			}
		}
		if !dominated {
			res.Allowed[c.i] = true
		}
	}
	if !strictWithMethod {
		res.NotFoundOK = true
	}
	// don't-care: a Pareto-best strict candidate (any method) lacks the method
	for _, c := range cs {
		if c.kind != 2 || ts[c.i].Has(method) {
			continue
		}
		best := true
		for _, d := range cs {
			if d.i != c.i && d.kind == 2 && dominates(d.segs, c.segs) {
				best = false
			}
		}
		if best {
			res.NotFoundOK = true
		}
	}
	return res
}
