package refmodel

import (
	"math"
	"regexp"
	"strconv"
	"time"
)

// Verdict of the reference lexer for one text against a declared primitive type.
type Verdict int

const (
	MustFail Verdict = iota // outside the lexical space or range of the type
	MustOK                  // inside: parsing must succeed with exactly Val
	DontCare                // accepted by Go's strconv/time beyond the OpenAPI lexical space (DESIGN §11)
)

type Lexed struct {
	V   Verdict
	Val any // bool | int64 | float64 | string | time.Time (for MustOK)
}

var (
	reInt = regexp.MustCompile(`^(0|-?[1-9][0-9]*)$`)
	reNum = regexp.MustCompile(`^-?(0|[1-9][0-9]*)(\.[0-9]+)?([eE][+-]?[0-9]+)?$`)
	reRFC = regexp.MustCompile(`^[0-9]{4}-[0-9]{2}-[0-9]{2}T[0-9]{2}:[0-9]{2}:[0-9]{2}(\.[0-9]+)?(Z|[+-][0-9]{2}:[0-9]{2})$`)
)

// Lex is the reference lexer for parameter texts (query, header, path) of primitive types.
func Lex(typ, format, s string) Lexed {
	switch typ {
	case "boolean":
		switch s {
		case "true":
			return Lexed{MustOK, true}
		case "false":
			return Lexed{MustOK, false}
		}
		if _, err := strconv.ParseBool(s); err == nil {
			return Lexed{V: DontCare}
		}
		return Lexed{V: MustFail}
	case "integer":
		bits := 64
		if format == "int32" {
			bits = 32
		}
		v, err := strconv.ParseInt(s, 10, bits)
		if err != nil {
			return Lexed{V: MustFail}
		}
		if reInt.MatchString(s) {
			return Lexed{MustOK, v}
		}
		return Lexed{V: DontCare} // "+5", "007", "-0"
	case "number":
		bits := 64
		if format == "float" {
			bits = 32
		}
		v, err := strconv.ParseFloat(s, bits)
		if err != nil {
			return Lexed{V: MustFail}
		}
		if reNum.MatchString(s) && !math.IsInf(v, 0) && !math.IsNaN(v) {
			return Lexed{MustOK, v}
		}
		return Lexed{V: DontCare}
	case "string":
		if format == "date-time" {
			t, err := time.Parse(time.RFC3339Nano, s)
			if err != nil {
				return Lexed{V: MustFail}
			}
			if reRFC.MatchString(s) {
				return Lexed{MustOK, t}
			}
			return Lexed{V: DontCare}
		}
		return Lexed{MustOK, s}
	case "":
		return Lexed{V: DontCare} // no type: any
	}
	return Lexed{V: DontCare}
}

// Lexemes returns the lexeme table of a type: canonical, boundary, out-of-range, garbage, empty.
func Lexemes(typ, format string) []string {
	switch typ {
	case "boolean":
		return []string{"true", "false", "tru", "1", "TRUE", "yes", " true", ""}
	case "integer":
		if format == "int32" {
			return []string{"7", "-1", "0", "2147483647", "-2147483648", "2147483648", "-2147483649", "4294967301", "x", "1.0", "007", "+5", "0x10", "1_0", " 7", "7 ", "1e2", ""}
		}
		return []string{"7", "-1", "0", "9223372036854775807", "-9223372036854775808", "9223372036854775808", "-9223372036854775809", "9007199254740993", "x", "1.0", "007", "+5", "0x10", "1_0", " 7", ""}
	case "number":
		if format == "float" {
			return []string{"1.5", "-2.5e-7", "0", "3.4028235e38", "1e39", "-1e39", "16777217", "x", "1,5", "NaN", "Inf", ".5", "1e", " 1", ""}
		}
		return []string{"1.5", "-2.5e-7", "0", "1.7976931348623157e308", "1e400", "-1e400", "9007199254740993", "0.1", "x", "1,5", "NaN", "Inf", ".5", "1e", " 1", ""}
	case "string":
		if format == "date-time" {
			return []string{"2020-01-02T03:04:05Z", "2020-01-02T03:04:05.123456789+02:00", "0001-01-01T00:00:00Z", "9999-12-31T23:59:59Z", "2020-01-02", "2020-01-02T03:04:05", "2020-13-02T03:04:05Z", "2020-01-02t03:04:05z", "x", "03:04:05Z", ""}
		}
		return []string{"a", "a b", "7", "true", "é", "%41", "a,b", ".", "..", ""}
	}
	return []string{"a", "7", ""}
}
