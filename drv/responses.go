package drv

import (
	"bytes"
	"context"
	"encoding/json"
	"errors"
	"fmt"
	"io"
	"net/http"
	"reflect"
	"sort"
	"strings"
	"time"

	"verif/refmodel"
	"verif/spec"
)

func init() {
	Handlers["C02"] = respProp
	Handlers["C10"] = respProp
}

type RespHeader struct {
	Name     string `json:"name"`
	Required bool   `json:"required"`
	Array    bool   `json:"array"`
	Type     string `json:"type"`
	Format   string `json:"format,omitempty"`
	Layout   string `json:"layout,omitempty"` // goag's private time-layout extension (a Go layout literal), "" = RFC 3339
}

type RespDecl struct {
	Status      string       `json:"status"` // "200" | "default"
	ContentType string       `json:"contentType,omitempty"`
	Schema      *spec.Schema `json:"schema,omitempty"` // JSON body schema (nil: no JSON body)
	Raw         bool         `json:"raw,omitempty"`
	Headers     []RespHeader `json:"headers,omitempty"`
	// AltTypes: the other media types the response documents. ContentType/Schema describe the JSON
	// entry when there is one; an implementation may represent the response by any ONE documented
	// media type, but Content-Type and body must belong to the same entry.
	AltTypes []string `json:"altTypes,omitempty"`
}

type RespOp struct {
	Method    string     `json:"method"`
	Path      string     `json:"path"`
	Responses []RespDecl `json:"responses"`
}

type RespPayload struct {
	State string     `json:"state"`
	Mode  string     `json:"mode"` // C02 | C10
	Spec  *spec.Spec `json:"spec"`
	Ops   []RespOp   `json:"ops"`
	// Objects: one entry per documented response OBJECT (an inline response, or a component with all
	// its aliases): the operations ("METHOD path") that document it.
	Objects [][]string `json:"objects"`
	// the discriminated oneOf of the state, if any (values must carry a discriminator that selects the variant)
	DiscProp    string     `json:"discProp,omitempty"`
	VariantKeys [][]string `json:"variantKeys,omitempty"`
}

// trackedBody: a response body that remembers Close and fails reads after it (what a real connection does).
type trackedBody struct {
	r      io.Reader
	closed bool
	failAt int // >=0: fail after that many bytes
	n      int
}

func (t *trackedBody) Read(p []byte) (int, error) {
	if t.closed {
		return 0, errors.New("read on closed response body")
	}
	if t.failAt >= 0 && t.n >= t.failAt {
		return 0, errors.New("injected body read error")
	}
	if t.failAt >= 0 && len(p) > t.failAt-t.n {
		p = p[:t.failAt-t.n]
	}
	n, err := t.r.Read(p)
	t.n += n
	return n, err
}
func (t *trackedBody) Close() error { t.closed = true; return nil }

type respRT struct {
	api        *API
	inject     func(r *http.Request) (*http.Response, error)
	last       *trackedBody
	lastStatus int
}

func (c *respRT) Do(r *http.Request) (*http.Response, error) {
	if c.inject != nil {
		resp, err := c.inject(r)
		if resp != nil {
			if tb, ok := resp.Body.(*trackedBody); ok {
				c.last = tb
			}
		}
		return resp, err
	}
	rec := NewRecorder()
	c.api.ServeHTTP(rec, r)
	status := rec.Status
	if status == 0 {
		status = 200
	}
	c.last = &trackedBody{r: bytes.NewReader(rec.Body), failAt: -1}
	c.lastStatus = status
	return &http.Response{StatusCode: status, Header: rec.H.Clone(), Body: c.last, Request: r}, nil
}

func concrete(v reflect.Value) reflect.Value {
	for v.IsValid() && (v.Kind() == reflect.Interface || v.Kind() == reflect.Ptr) && !v.IsNil() {
		v = v.Elem()
	}
	return v
}

// ctorArgSets enumerates argument tuples of a constructor over small domains.
func ctorArgSets(p *Pkg, pl *RespPayload, c Ctor, codes []int, rawBody string) [][]reflect.Value {
	ft := c.Fn.Type()
	// the default response's constructor takes the status code first: its result has a Code field
	isDefault := false
	if ft.NumIn() > 0 && ft.In(0).Kind() == reflect.Int {
		probe := make([]reflect.Value, ft.NumIn())
		for i := range probe {
			probe[i] = reflect.Zero(ft.In(i))
		}
		if Catch(func() {
			v := concrete(c.Fn.Call(probe)[0])
			if v.Kind() == reflect.Struct {
				if cf := v.FieldByName("Code"); cf.IsValid() && cf.Kind() == reflect.Int {
					isDefault = true
				}
			}
		}) != "" {
			isDefault = false
		}
	}
	doms := make([][]reflect.Value, ft.NumIn())
	for i := 0; i < ft.NumIn(); i++ {
		it := ft.In(i)
		switch {
		case it.Kind() == reflect.Int && i == 0 && isDefault:
			for _, code := range codes {
				doms[i] = append(doms[i], reflect.ValueOf(code).Convert(it))
			}
		case it.Kind() == reflect.Interface && reflect.TypeOf((*trackedBody)(nil)).Implements(it):
			doms[i] = []reflect.Value{reflect.Zero(it)} // filled per call (a reader can be read once)
		default:
			e := &valEnum{p: p, cap: 50, strings: []string{"a", "", "a b", "x,y", "é"}, discProp: pl.DiscProp, variantKeys: pl.VariantKeys}
			if it.Kind() != reflect.String && !(it.Kind() == reflect.Slice && it.Elem().Kind() == reflect.String) && !isWrapper(it) {
				e.strings = nil
			}
			vs := e.Enum(it, 1)
			if len(vs) > 6 {
				vs = append(vs[:5:5], vs[len(vs)-1])
			}
			// lists of strings: always a single element that itself contains a comma, and one with an empty element
			// in the middle (one field line per element: folding and unfolding must not change the list)
			for _, l := range [][]string{{"x,y"}, {"x", "", "y"}} {
				st := it
				var wrap func(reflect.Value) reflect.Value
				if isWrapper(it) && it.NumField() == 2 {
					st = it.Field(1).Type
					wrap = func(v reflect.Value) reflect.Value {
						w := reflect.New(it).Elem()
						w.Field(0).SetBool(true)
						w.Field(1).Set(v)
						return w
					}
				}
				if st.Kind() == reflect.Slice && st.Elem().Kind() == reflect.String {
					sv := reflect.MakeSlice(st, 0, len(l))
					for _, x := range l {
						sv = reflect.Append(sv, reflect.ValueOf(x).Convert(st.Elem()))
					}
					if wrap != nil {
						sv = wrap(sv)
					}
					vs = append(vs, sv)
				}
			}
			doms[i] = vs
		}
	}
	var out [][]reflect.Value
	idx := make([]int, len(doms))
	for {
		args := make([]reflect.Value, len(doms))
		for i := range doms {
			args[i] = doms[i][idx[i]]
		}
		out = append(out, args)
		if len(out) >= 150 {
			break
		}
		k := 0
		for k < len(idx) {
			idx[k]++
			if idx[k] < len(doms[k]) {
				break
			}
			idx[k] = 0
			k++
		}
		if k == len(idx) {
			break
		}
	}
	return out
}

func findResp(op RespOp, status int) (*RespDecl, bool) {
	for i := range op.Responses {
		if op.Responses[i].Status == fmt.Sprint(status) {
			return &op.Responses[i], false
		}
	}
	for i := range op.Responses {
		if op.Responses[i].Status == "default" {
			return &op.Responses[i], true
		}
	}
	return nil, false
}

func respProp(p *Pkg, _ *Pkg, payload json.RawMessage, res *Result) {
	var pl RespPayload
	if err := json.Unmarshal(payload, &pl); err != nil {
		res.Internal = err.Error()
		return
	}
	api, err := NewAPI(p)
	if err != nil {
		res.Violate(Violation{Attrs: map[string]string{"kind": "surface"}, Observed: err.Error()})
		return
	}
	bad := func(kind, clause, in, observed, expected string) {
		res.Violate(Violation{Attrs: map[string]string{"kind": kind, "clause": clause}, Input: in, Observed: observed, Expected: expected, Detail: map[string]any{"state": pl.State}})
	}
	if pl.Mode == "C02" {
		// static half: exact implementer sets. For every named type of the package: the set of response
		// interfaces it (or its pointer) implements; as a multiset this must equal the documented objects.
		seen := map[reflect.Type]bool{}
		var got []string
		names := make([]string, 0, len(p.Types))
		for n := range p.Types {
			names = append(names, n)
		}
		sort.Strings(names)
		for _, n := range names {
			t := p.Types[n]
			if seen[t] || t.Kind() == reflect.Interface {
				continue
			}
			seen[t] = true
			var ops []string
			for _, op := range api.Ops {
				if t.Implements(op.RespType) || reflect.PointerTo(t).Implements(op.RespType) {
					ops = append(ops, op.Method+" "+op.Path)
				}
			}
			if len(ops) > 0 {
				sort.Strings(ops)
				got = append(got, strings.Join(ops, "|"))
			}
		}
		var want []string
		for _, o := range pl.Objects {
			l := append([]string{}, o...)
			sort.Strings(l)
			want = append(want, strings.Join(l, "|"))
		}
		sort.Strings(got)
		sort.Strings(want)
		res.Count("implementer-sets", int64(len(got)))
		if strings.Join(got, " ; ") != strings.Join(want, " ; ") {
			clause := "extra-implementer"
			if len(got) < len(want) {
				clause = "missing-implementer"
			} else if len(got) == len(want) {
				clause = "wrong-attachment"
			}
			bad("implementers", clause, "", "types implementing response interfaces: ["+strings.Join(got, " ; ")+"]", "exactly the documented responses: ["+strings.Join(want, " ; ")+"]")
		}
	}
	for _, ro := range pl.Ops {
		op := api.Op(ro.Method, ro.Path)
		if op == nil {
			bad("surface", "", "", "no handler for "+ro.Method+" "+ro.Path, "")
			continue
		}
		var cur reflect.Value
		api.Install(op, func(op *Op, ctx context.Context, req reflect.Value) reflect.Value { return cur })
		rt := &respRT{api: api}
		var meth reflect.Value
		if pl.Mode == "C10" {
			nc := reflect.ValueOf(p.Funcs["NewClient"])
			if !nc.IsValid() || nc.Type().NumIn() != 2 {
				bad("surface", "", "", "no NewClient", "")
				return
			}
			hc := reflect.New(nc.Type().In(1)).Elem()
			hc.Set(reflect.ValueOf(rt))
			client := nc.Call([]reflect.Value{reflect.ValueOf("http://h"), hc})[0]
			for i := 0; i < client.NumMethod(); i++ {
				m := client.Method(i)
				if m.Type().NumIn() == 2 && m.Type().In(1) == op.ParamsT {
					meth = m
				}
			}
			if !meth.IsValid() {
				bad("surface", "", "", "client has no method for "+ro.Method+" "+ro.Path, "")
				continue
			}
		}
		kindByStatus := map[int]reflect.Type{}
		var defaultKind reflect.Type
		seenStatuses := map[int]bool{}
		for _, c := range op.Ctors {
			// the default response is for codes the operation does not document
			var codes []int
			for _, code := range []int{599, 418, 204, 302, 203} {
				if rd, viaDefault := findResp(ro, code); (rd == nil || viaDefault) && len(codes) < 3 {
					codes = append(codes, code)
				}
			}
			for _, args := range ctorArgSets(p, &pl, c, codes, "raw") {
				rawSent := "raw-\x00bytes\xff"
				for i := range args {
					if args[i].Kind() == reflect.Interface && args[i].IsNil() {
						a := reflect.New(args[i].Type()).Elem()
						a.Set(reflect.ValueOf(io.NopCloser(strings.NewReader(rawSent))))
						args[i] = a
					}
				}
				var rv reflect.Value
				if pn := Catch(func() { rv = c.Fn.Call(args)[0] }); pn != "" {
					bad("panic-in-constructor", c.Name, "", pn, "")
					continue
				}
				cur = rv
				val := concrete(rv)
				in := c.Name + " " + showVal(val)
				if pl.Mode == "C10" && hasEmptyArrayHeader(val) {
					res.Count("skipped-empty-array-header", 1) // §11: array values are non-empty
					continue
				}
				res.Count("responses", 1)
				if pl.Mode == "C02" {
					rec := NewRecorder()
					if pn := Catch(func() { api.ServeHTTP(rec, NewRequest(ro.Method, ro.Path, "", nil, nil)) }); pn != "" {
						bad("panic-in-write", c.Name, in, pn, "")
						continue
					}
					c02Judge(&pl, ro, c, args, val, rec, rawSent, in, bad)
					seenStatuses[rec.Status] = true
					// the same value written onto a ResponseWriter that already carries headers (an outer
					// middleware's fallback Content-Type): the documented response must come out the same
					rawBody := false
					if val.Kind() == reflect.Struct {
						if b := val.FieldByName("Body"); b.IsValid() && b.Kind() == reflect.Interface {
							rawBody = true
						}
					}
					if !rawBody {
						rec2 := NewRecorder()
						rec2.H.Set("Content-Type", "text/html; charset=preset")
						rec2.H.Set("X-Preset", "1")
						if pn := Catch(func() { api.ServeHTTP(rec2, NewRequest(ro.Method, ro.Path, "", nil, nil)) }); pn != "" {
							bad("panic-in-write", c.Name, in+" (writer with preset headers)", pn, "")
							continue
						}
						res.Count("responses-preset-writer", 1)
						ct1 := rec.HeaderAtWH.Get("Content-Type")
						sameBody := string(rec2.Body) == string(rec.Body) || (json.Valid(rec.Body) && jsonEqual(rec.Body, rec2.Body)) // object key order is free
						if rec2.Status != rec.Status || !sameBody || (ct1 != "" && rec2.HeaderAtWH.Get("Content-Type") != ct1) {
							bad("preset-writer-differs", c.Name, in, fmt.Sprintf("on a writer that already carried Content-Type text/html: status %d, Content-Type %q, body %q", rec2.Status, rec2.HeaderAtWH.Get("Content-Type"), firstN(string(rec2.Body), 80)),
								fmt.Sprintf("as on a fresh writer: status %d, Content-Type %q, body %q", rec.Status, ct1, firstN(string(rec.Body), 80)))
						}
					}
					continue
				}
				// C10 (i): the client reconstructs what the handler returned
				rt.inject = nil
				var out []reflect.Value
				if pn := Catch(func() {
					out = meth.Call([]reflect.Value{reflect.ValueOf(context.Background()), reflect.New(op.ParamsT).Elem()})
				}); pn != "" {
					bad("panic-in-client", c.Name, in, pn, "")
					continue
				}
				if !out[1].IsNil() {
					bad("client-error-on-documented-response", c.Name+" "+errClass(out[1].Interface().(error)), in, "error: "+out[1].Interface().(error).Error(), "the same response kind with equal code, headers and body")
					continue
				}
				got := concrete(out[0])
				if got.Type() != val.Type() {
					bad("wrong-response-kind", c.Name, in, "client returned "+got.Type().Name(), "a "+val.Type().Name())
					continue
				}
				if d := respDiff(val, got, rawSent); d != "" {
					bad("response-differs", d, in, "client returned "+showVal(got), "equal code, header values and body")
					continue
				}
				if rt.last != nil && !rt.last.closed && val.Kind() == reflect.Struct {
					if b := val.FieldByName("Body"); !b.IsValid() || b.Kind() != reflect.Interface {
						bad("body-not-closed", c.Name, in, "the client left the response body open", "body closed")
					}
				}
				res.Count("roundtrips", 1)
				if code := val.FieldByName("Code"); code.IsValid() && code.Kind() == reflect.Int {
					defaultKind = val.Type()
				} else {
					kindByStatus[rt.lastStatus] = val.Type() // the server's own answer tells which kind a status is
				}
			}
		}
		if pl.Mode == "C02" {
			for _, rd := range ro.Responses {
				if rd.Status == "default" {
					continue
				}
				var st int
				fmt.Sscanf(rd.Status, "%d", &st)
				if !seenStatuses[st] {
					bad("documented-status-unreachable", rd.Status, ro.Method+" "+ro.Path, "no constructor makes the handler answer "+rd.Status, "a response value for every documented status")
				}
			}
			continue
		}
		// C10 (ii): environment answers injected at the HTTPClient seam
		// learn status -> kind by asking the client with well-formed synthetic answers
		hasDefault := false
		for _, rd := range ro.Responses {
			if rd.Status == "default" {
				hasDefault = true
			}
		}
		for _, status := range []int{100, 200, 201, 204, 301, 400, 404, 418, 500, 599} {
			rd, viaDefault := findResp(ro, status)
			for _, bodyKind := range []string{"valid", "empty", "other-shape", "truncated", "failing-reader"} {
				for _, hdrKind := range []string{"present", "absent", "unparsable", "twice"} {
					if hdrKind != "present" && (rd == nil || len(rd.Headers) == 0) {
						continue
					}
					body, failAt := "", -1
					switch bodyKind {
					case "valid":
						if rd != nil && rd.Schema != nil {
							if ds := refmodel.Docs(pl.Spec, rd.Schema); len(ds) > 0 {
								body = ds[0].JSON
							}
						} else if rd != nil && rd.Raw {
							body = "raw"
						}
					case "other-shape":
						body = `[[1]]`
						if rd != nil && rd.Schema != nil && pl.Spec.Resolve(rd.Schema) != nil && pl.Spec.Resolve(rd.Schema).Type == "array" {
							body = `{"zz":{}}`
						}
					case "truncated":
						body = `{"a":`
					case "failing-reader":
						body, failAt = `{"a":"x"}`, 1
					}
					hdr := http.Header{}
					if rd != nil {
						for _, h := range rd.Headers {
							good := map[string]string{"string": "a", "integer": "7", "number": "1.5", "boolean": "true"}[h.Type]
							if h.Format == "date-time" {
								good = "2020-01-02T03:04:05Z"
								if h.Layout != "" {
									good = time.Date(2020, 1, 2, 3, 4, 5, 0, time.UTC).Format(h.Layout)
								}
							}
							switch hdrKind {
							case "present":
								hdr.Add(h.Name, good)
							case "unparsable":
								hdr.Add(h.Name, "\x01not a value")
							case "twice":
								hdr.Add(h.Name, good)
								hdr.Add(h.Name, good)
							}
						}
						if rd.ContentType != "" {
							hdr.Set("Content-Type", rd.ContentType)
						}
					}
					rt.inject = func(r *http.Request) (*http.Response, error) {
						return &http.Response{StatusCode: status, Header: hdr.Clone(), Body: &trackedBody{r: strings.NewReader(body), failAt: failAt}, Request: r}, nil
					}
					in := fmt.Sprintf("%s %s <- status=%d body=%s(%q) headers=%s", ro.Method, ro.Path, status, bodyKind, body, hdrKind)
					var out []reflect.Value
					if pn := Catch(func() {
						out = meth.Call([]reflect.Value{reflect.ValueOf(context.Background()), reflect.New(op.ParamsT).Elem()})
					}); pn != "" {
						bad("panic-in-client", "injected", in, pn, "no panic")
						continue
					}
					res.Count("injected", 1)
					isErr := !out[1].IsNil()
					var got reflect.Value
					if !isErr {
						got = concrete(out[0])
					}
					switch {
					case rd == nil:
						// undocumented status and no default: must be an error
						if !isErr {
							bad("undocumented-status-accepted", "no-default", in, "client returned "+got.Type().Name(), "an error (status not documented, no default response)")
						}
					case viaDefault:
						if isErr {
							// allowed only when the default response's own body/headers cannot be decoded
							if bodyKind == "valid" && hdrKind == "present" || (rd.Schema == nil && !rd.Raw && hdrKind == "present") {
								bad("undocumented-status-not-delivered-through-default", errClass(out[1].Interface().(error)), in, "error: "+out[1].Interface().(error).Error(), "the default response with Code == status")
							}
							break
						}
						code := got.FieldByName("Code")
						if !code.IsValid() || code.Kind() != reflect.Int {
							bad("undocumented-status-as-documented-kind", "", in, "client returned "+got.Type().Name(), "the default response kind")
						} else if int(code.Int()) != status {
							bad("default-code-differs", "", in, fmt.Sprintf("Code=%d", code.Int()), fmt.Sprintf("Code=%d", status))
						}
					default:
						if isErr {
							if bodyKind == "valid" && hdrKind == "present" {
								bad("client-error-on-documented-response", "injected "+errClass(out[1].Interface().(error)), in, "error: "+out[1].Interface().(error).Error(), "the documented response")
							}
							break
						}
						if code := got.FieldByName("Code"); code.IsValid() && code.Kind() == reflect.Int && hasDefault {
							bad("documented-status-as-default-kind", "", in, "client returned the default kind "+got.Type().Name(), "the response documented for this status")
						}
						if k, ok := kindByStatus[status]; ok && k != got.Type() {
							bad("wrong-response-kind", "injected", in, "client returned "+got.Type().Name(), k.Name())
						}
						// a documented response with an undecodable body or a missing required header is an error,
						// never a zero-valued success
						reqHdr := false
						for _, h := range rd.Headers {
							if h.Required {
								reqHdr = true
							}
						}
						if rd.Schema != nil && (bodyKind == "truncated" || bodyKind == "failing-reader" || bodyKind == "empty") {
							bad("zero-valued-success", "body-"+bodyKind, in, "client returned "+showVal(got)+" without error", "an error: the documented JSON body cannot be decoded")
						}
						if reqHdr && hdrKind == "absent" {
							bad("zero-valued-success", "required-header-absent", in, "client returned "+showVal(got)+" without error", "an error: a required response header is missing")
						}
					}
				}
			}
		}
		_ = defaultKind
	}
	res.Sample(map[string]any{"state": pl.State, "responses": res.Counters["responses"], "injected": res.Counters["injected"]})
}

// respDiff compares the response value the handler returned with the one the client reconstructed.
func respDiff(a, b reflect.Value, rawSent string) string {
	if a.Kind() != reflect.Struct {
		if !valEqual(a, b) {
			return "value"
		}
		return ""
	}
	t := a.Type()
	for i := 0; i < t.NumField(); i++ {
		f := t.Field(i)
		if !f.IsExported() {
			continue
		}
		if f.Name == "Body" && f.Type.Kind() == reflect.Interface {
			if b.Field(i).IsNil() {
				return ".Body:nil"
			}
			r, ok := b.Field(i).Interface().(io.Reader)
			if !ok {
				return ".Body:not-a-reader"
			}
			bs, err := io.ReadAll(r)
			if err != nil {
				return ".Body:read-error " + err.Error()
			}
			if string(bs) != rawSent {
				return ".Body:bytes"
			}
			continue
		}
		if d := firstDiff(a.Field(i), b.Field(i), "."+f.Name); d != "" {
			return d
		}
	}
	return ""
}

// c02Judge: writing a response emits the documented status, Content-Type, declared headers and body.
func c02Judge(pl *RespPayload, ro RespOp, c Ctor, args []reflect.Value, val reflect.Value, rec *Recorder, rawSent, in string, bad func(kind, clause, in, observed, expected string)) {
	if rec.WriteHeaders != 1 {
		bad("response-count", c.Name, in, fmt.Sprintf("WriteHeader called %d times", rec.WriteHeaders), "exactly once")
		return
	}
	rd, viaDefault := findResp(ro, rec.Status)
	takesCode := false
	if val.Kind() == reflect.Struct {
		if cf := val.FieldByName("Code"); cf.IsValid() && cf.Kind() == reflect.Int && len(args) > 0 && args[0].Kind() == reflect.Int {
			takesCode = true
		}
	}
	if takesCode {
		// the default response: the caller-supplied code
		if int(args[0].Int()) != rec.Status {
			bad("status", "default-code", in, fmt.Sprintf("status %d", rec.Status), fmt.Sprintf("the supplied code %d", args[0].Int()))
			return
		}
		for i := range ro.Responses {
			if ro.Responses[i].Status == "default" {
				rd, viaDefault = &ro.Responses[i], true
			}
		}
	} else if rd == nil || viaDefault {
		bad("status", "undocumented", in, fmt.Sprintf("status %d", rec.Status), "a documented status code")
		return
	}
	if rd == nil {
		bad("status", "no-default-documented", in, fmt.Sprintf("status %d", rec.Status), "a documented response")
		return
	}
	hdrs := rec.HeaderAtWH
	ct := hdrs.Get("Content-Type")
	if len(rd.AltTypes) > 0 && rd.Schema != nil && val.Kind() == reflect.Struct {
		// several media types documented: a response value that carries a raw body was generated for one
		// of the non-JSON entries; a typed body belongs to the JSON entry
		if b := val.FieldByName("Body"); b.IsValid() && b.Kind() == reflect.Interface {
			local := *rd
			local.Schema, local.Raw = nil, true
			local.ContentType = rd.AltTypes[0]
			for _, a := range rd.AltTypes {
				if a == ct {
					local.ContentType = a
				}
			}
			rd = &local
		}
	}
	if rd.Raw && len(rd.AltTypes) > 0 {
		// no JSON entry: any one of the documented media types may be the one the raw body is sent as
		for _, a := range rd.AltTypes {
			if a == ct {
				local := *rd
				local.ContentType = a
				rd = &local
			}
		}
	}
	if rd.ContentType != "" && ct != rd.ContentType {
		bad("content-type", rd.ContentType, in, "Content-Type "+fmt.Sprintf("%q", ct), rd.ContentType)
	}
	if rd.ContentType == "" && ct != "" {
		bad("content-type", "unexpected", in, "Content-Type "+ct, "none (no body documented)")
	}
	// headers
	hv := reflect.Value{}
	if val.Kind() == reflect.Struct {
		hv = val.FieldByName("Headers")
	}
	for _, h := range rd.Headers {
		texts := hdrs.Values(h.Name)
		var fv reflect.Value
		found := false
		if hv.IsValid() {
			fv, found = FieldFor(hv, h.Name)
		}
		if !found {
			bad("surface", "header-field", in, "no Headers field for "+h.Name, "")
			continue
		}
		inner, omitted, _ := peel(fv)
		if omitted {
			if len(texts) != 0 {
				bad("header", "unset-optional-written", in, fmt.Sprintf("%s: %q", h.Name, texts), "absent")
			}
			continue
		}
		var want []any
		if inner.Kind() == reflect.Slice && inner.Type() != tRaw {
			for i := 0; i < inner.Len(); i++ {
				want = append(want, Abstract(inner.Index(i)))
			}
		} else {
			want = []any{Abstract(inner)}
		}
		if len(texts) != len(want) {
			bad("header", "value-count", in, fmt.Sprintf("%s: %q", h.Name, texts), fmt.Sprintf("%d values", len(want)))
			continue
		}
		for i, t := range texts {
			lx := refmodel.Lex(h.Type, h.Format, t)
			if lx.V == refmodel.MustFail || (lx.V == refmodel.MustOK && !AbsEqual(lx.Val, want[i])) {
				bad("header", "value", in, fmt.Sprintf("%s: %q", h.Name, t), "the reference formatting of "+AbsString(want[i]))
			}
		}
	}
	// body
	body := bytes.TrimSpace(rec.Body)
	switch {
	case rd.Schema != nil:
		bv := reflect.Value{}
		if val.Kind() == reflect.Struct {
			bv = val.FieldByName("Body")
		}
		if len(body) == 0 {
			bad("body", "empty", in, "no body written", "a JSON body of the declared schema")
			break
		}
		for _, pr := range Conform(pl.Spec, rd.Schema, bv, body) {
			bad("body", pr.clause, in+" -> "+string(body), pr.path+": "+pr.msg, "a body of the declared schema")
			break
		}
	case rd.Raw:
		if string(rec.Body) != rawSent {
			bad("body", "raw-bytes", in, fmt.Sprintf("%q", rec.Body), fmt.Sprintf("%q", rawSent))
		}
	default:
		if len(body) != 0 {
			bad("body", "unexpected", in, string(body), "no body")
		}
	}
}

// hasEmptyArrayHeader: a response value whose Headers group holds an empty array (set or required).
func hasEmptyArrayHeader(val reflect.Value) bool {
	if val.Kind() != reflect.Struct {
		return false
	}
	h := val.FieldByName("Headers")
	if !h.IsValid() || h.Kind() != reflect.Struct {
		return false
	}
	for i := 0; i < h.NumField(); i++ {
		inner, omitted, _ := peel(h.Field(i))
		if !omitted && inner.Kind() == reflect.Slice && inner.Len() == 0 {
			return true
		}
	}
	return false
}
