package drv

import (
	"context"
	"encoding/json"
	"fmt"
	"net/http"
	"reflect"
	"strings"

	"verif/refmodel"
)

// RoutePayload describes one routing state (C03/C16) to the driver.
type RoutePayload struct {
	State     string              `json:"state"`
	Templates []refmodel.Template `json:"templates"`
	Base      string              `json:"base"`     // normalised base path the model uses
	BaseName  string              `json:"baseName"` // name of the base-path form
	Prefixes  []string            `json:"prefixes"` // request prefixes tried in front of every path
	Segs      []string            `json:"segs"`     // request segment alphabet
	MaxDepth  int                 `json:"maxDepth"`
	Methods   []string            `json:"methods"`
	SpecName  string              `json:"specName"`
	Stacks    []int               `json:"stacks,omitempty"`  // middleware stack lengths (C16)
	Secured   map[string]bool     `json:"secured,omitempty"` // "METHOD path" -> operation has a (bearer) security requirement (C16)
	Cors      bool                `json:"cors,omitempty"`
}

func init() {
	Handlers["C03"] = c03
}

type routeObs struct {
	ran      []int // op indexes whose handler ran
	notFound int
	mw       []string // middleware trace
	mwPath   []string
	mwOK     []bool
	auth     int
}

// enumPaths yields every sequence of 1..maxDepth segments over segs, as "/s1/s2...".
func enumPaths(segs []string, maxDepth int, f func(path string)) {
	var rec func(cur []string)
	rec = func(cur []string) {
		if len(cur) > 0 {
			f("/" + strings.Join(cur, "/"))
		}
		if len(cur) == maxDepth {
			return
		}
		for _, s := range segs {
			rec(append(cur, s))
		}
	}
	rec(nil)
}

func tmplIndex(ts []refmodel.Template, path string) int {
	for i, t := range ts {
		if t.Path == path {
			return i
		}
	}
	return -1
}

func c03(p *Pkg, _ *Pkg, payload json.RawMessage, res *Result) {
	var pl RoutePayload
	if err := json.Unmarshal(payload, &pl); err != nil {
		res.Internal = err.Error()
		return
	}
	schemaPath, _ := p.Funcs["SchemaPath"].(func(*http.Request) (string, bool))
	for _, customNF := range []bool{true, false} {
		api, err := NewAPI(p)
		if err != nil {
			res.Violate(Violation{Attrs: map[string]string{"kind": "surface"}, Observed: err.Error()})
			return
		}
		if schemaPath == nil {
			res.Violate(Violation{Attrs: map[string]string{"kind": "surface"}, Observed: "no SchemaPath(*http.Request) (string, bool) function"})
			return
		}
		// every declared (template, method) must have a handler field
		for _, t := range pl.Templates {
			for _, m := range t.Methods {
				if api.Op(m, t.Path) == nil {
					res.Violate(Violation{Attrs: map[string]string{"kind": "surface"}, Observed: "no handler field for " + m + " " + t.Path})
					return
				}
			}
		}
		var obs routeObs
		resp := map[*Op]reflect.Value{}
		for i, op := range api.Ops {
			i := i
			resp[op] = DefaultResponse(op)
			api.Install(op, func(op *Op, ctx context.Context, req reflect.Value) reflect.Value {
				obs.ran = append(obs.ran, i)
				return resp[op]
			})
		}
		if customNF {
			api.SetField("NotFoundHandler", http.HandlerFunc(func(w http.ResponseWriter, r *http.Request) {
				obs.notFound++
				w.WriteHeader(418)
			}))
		}
		api.SetField("Middlewares", []func(http.Handler) http.Handler{func(next http.Handler) http.Handler {
			return http.HandlerFunc(func(w http.ResponseWriter, r *http.Request) {
				sp, ok := schemaPath(r)
				obs.mwPath = append(obs.mwPath, sp)
				obs.mwOK = append(obs.mwOK, ok)
				next.ServeHTTP(w, r)
			})
		}})
		for _, prefix := range pl.Prefixes {
			enumPaths(pl.Segs, pl.MaxDepth, func(path string) {
				full := prefix + path
				for _, method := range pl.Methods {
					obs = routeObs{}
					rec := NewRecorder()
					req := NewRequest(method, full, "", nil, nil)
					if pn := Catch(func() { api.ServeHTTP(rec, req) }); pn != "" {
						res.Violate(Violation{Attrs: map[string]string{"kind": "panic", "base": pl.BaseName}, Input: method + " " + full, Observed: pn})
						continue
					}
					res.Count("requests", 1)
					mr := refmodel.Match(pl.Templates, pl.Base, full, method)
					if mr.Candidates >= 2 {
						res.Count("competing", 1)
					}
					in := method + " " + full
					bad := func(kind, rel, observed, expected string) {
						res.Violate(Violation{Attrs: map[string]string{"kind": kind, "rel": rel, "base": pl.BaseName, "nf": fmt.Sprint(customNF)},
							Input: in, Observed: observed, Expected: expected, Detail: pl})
					}
					exp := describeAllowed(pl.Templates, mr)
					switch {
					case len(obs.ran) > 1:
						bad("multi-dispatch", "", fmt.Sprintf("%d handlers ran", len(obs.ran)), exp)
					case len(obs.ran) == 1:
						res.Count("dispatch", 1)
						op := api.Ops[obs.ran[0]]
						ti := tmplIndex(pl.Templates, op.Path)
						if ti < 0 || op.Method != method || !mr.Allowed[ti] {
							kind, rel := classifyMisroute(pl, op, full, method, mr, ti)
							bad(kind, rel, "dispatched to "+op.Method+" "+op.Path, exp)
							break
						}
						if len(obs.mwPath) != 1 || obs.mwPath[0] != op.Path || !obs.mwOK[0] {
							bad("schemapath", "", fmt.Sprintf("dispatched to %s; middleware saw SchemaPath=%v ok=%v", op.Path, obs.mwPath, obs.mwOK), "middleware sees "+op.Path)
						}
						if obs.notFound != 0 {
							bad("notfound-and-dispatch", "", "not-found handler ran for a dispatched request", exp)
						}
					default:
						res.Count("notfound", 1)
						if !mr.NotFoundOK {
							bad("false-404", relOfRequest(pl, full), fmt.Sprintf("not found (status %d)", rec.Status), exp)
							break
						}
						if customNF && (obs.notFound != 1 || rec.Status != 418) {
							bad("custom-notfound-not-used", "", fmt.Sprintf("custom NotFoundHandler ran %d times, status %d", obs.notFound, rec.Status), "custom NotFoundHandler runs once")
						}
						if !customNF && rec.Status != 404 {
							bad("notfound-status", "", fmt.Sprintf("status %d", rec.Status), "404")
						}
					}
				}
			})
		}
	}
	res.Sample(map[string]any{"state": pl.State, "requests": res.Counters["requests"], "dispatch": res.Counters["dispatch"], "notfound": res.Counters["notfound"]})
}

func describeAllowed(ts []refmodel.Template, mr refmodel.MatchResult) string {
	var l []string
	for i := range ts {
		if mr.Allowed[i] {
			l = append(l, ts[i].Path)
		}
	}
	s := "dispatch to one of [" + strings.Join(l, " ") + "]"
	if mr.NotFoundOK {
		s += " or not-found"
	}
	return s
}

func relOfRequest(pl RoutePayload, full string) string {
	if _, ok := refmodel.Rest(pl.Base, full); !ok {
		return "outside-base"
	}
	return "beneath-base"
}

func classifyMisroute(pl RoutePayload, op *Op, full, method string, mr refmodel.MatchResult, ti int) (kind, rel string) {
	if op.Method != method {
		return "wrong-method", ""
	}
	rest, ok := refmodel.Rest(pl.Base, full)
	if !ok {
		return "dispatch-nonmatching", "outside-base"
	}
	rs, ts := refmodel.Segs(rest), refmodel.Segs(op.Path)
	switch {
	case len(rs) < len(ts):
		rel = fmt.Sprintf("request-short-by-%d", len(ts)-len(rs))
		if refmodel.IsVar(ts[len(ts)-1]) {
			rel += "-trailing-variable"
		}
		return "dispatch-nonmatching", rel
	case len(rs) > len(ts):
		return "dispatch-nonmatching", fmt.Sprintf("request-long-by-%d", len(rs)-len(ts))
	}
	for i := range ts {
		if !refmodel.IsVar(ts[i]) && ts[i] != rs[i] {
			return "dispatch-nonmatching", "literal-mismatch"
		}
	}
	return "dispatch-dominated", ""
}
