package drv

import (
	"encoding/json"
	"fmt"
	"reflect"
	"strconv"
	"strings"
	"time"

	"verif/spec"
)

// Conformance walker of property C07: the JSON produced for a value of a schema-derived type is
// checked, clause by clause of the property statement, against the SOURCE schema (spec view) and the
// Go value it was produced from. It does not use goag's decoder.

type problem struct {
	clause string
	path   string
	msg    string
}

type conformer struct {
	s     *spec.Spec
	probs []problem
}

func (c *conformer) add(clause, path, format string, a ...any) {
	if len(c.probs) < 20 {
		c.probs = append(c.probs, problem{clause, path, fmt.Sprintf(format, a...)})
	}
}

// peel removes Maybe/Nullable wrappers. omitted: an (outer) optional is unset; null: a nullable is unset.
func peel(v reflect.Value) (inner reflect.Value, omitted, null bool) {
	for v.IsValid() && isWrapper(v.Type()) {
		isMaybe := strings.HasPrefix(v.Type().Name(), "Maybe")
		if !v.Field(0).Bool() {
			if isMaybe {
				return v, true, false
			}
			return v, false, true
		}
		v = v.Field(1)
	}
	return v, false, false
}

// findField finds the struct field (possibly promoted through embedded structs) derived from a
// property name.
func findField(v reflect.Value, name string) (reflect.Value, bool) {
	if v.Kind() != reflect.Struct {
		return reflect.Value{}, false
	}
	want := NormName(name)
	t := v.Type()
	for i := 0; i < t.NumField(); i++ {
		f := t.Field(i)
		if !f.Anonymous && f.IsExported() && NormName(f.Name) == want {
			return v.Field(i), true
		}
	}
	for i := 0; i < t.NumField(); i++ {
		f := t.Field(i)
		if f.Anonymous || (f.Type.Kind() == reflect.Struct && f.Type.Name() != "" && !isWrapper(f.Type) && f.Type != tTime) {
			if f.Anonymous {
				if r, ok := findField(v.Field(i), name); ok {
					return r, true
				}
			}
		}
	}
	return reflect.Value{}, false
}

// flatten collects the properties, required set and additionalProperties of an object-like schema
// through allOf members and references.
type flatObj struct {
	props    []spec.Prop
	required map[string]bool
	addAny   bool
	add      *spec.Schema
	isObject bool
}

func (c *conformer) flatten(sc *spec.Schema, out *flatObj, depth int) {
	sc = c.s.Resolve(sc)
	if sc == nil || depth > 6 {
		return
	}
	if len(sc.AllOf) > 0 {
		out.isObject = true
		for _, m := range sc.AllOf {
			c.flatten(m, out, depth+1)
		}
		return
	}
	if sc.Type == "object" || len(sc.Props) > 0 || sc.Add != nil || sc.AddBool != nil {
		out.isObject = true
	}
	out.props = append(out.props, sc.Props...)
	for _, r := range sc.Required {
		out.required[r] = true
	}
	if sc.AddBool != nil && *sc.AddBool {
		out.addAny = true
	}
	if sc.Add != nil {
		out.add = sc.Add
	}
	if sc.Type == "object" && len(sc.Props) == 0 && sc.Add == nil && sc.AddBool == nil {
		out.addAny = true // free-form object
	}
}

func (c *conformer) nullable(sc *spec.Schema) bool {
	r := c.s.Resolve(sc)
	return (sc != nil && sc.Nullable) || (r != nil && r.Nullable)
}

// check: JSON value j (decoded with UseNumber) produced for Go value v of schema sc.
func (c *conformer) check(sc *spec.Schema, v reflect.Value, j any, path string) {
	hasV := v.IsValid()
	if hasV {
		var omitted, null bool
		v, omitted, null = peel(v)
		if omitted {
			c.add("optional-not-omitted", path, "unset optional written as %v", j)
			return
		}
		if null {
			if j != nil {
				c.add("null-expected", path, "null value written as %v", j)
			} else if !c.nullable(sc) {
				c.add("null-not-nullable", path, "null written where the schema is not nullable")
			}
			return
		}
	}
	if j == nil {
		if !c.nullable(sc) {
			rs := c.s.Resolve(sc)
			if rs != nil && (rs.Type != "" || len(rs.AllOf) > 0 || len(rs.OneOf) > 0) {
				c.add("null-not-nullable", path, "null written where the schema is not nullable")
			}
		}
		return
	}
	rs := c.s.Resolve(sc)
	if rs == nil {
		return
	}
	if len(rs.OneOf) > 0 {
		// the chosen variant
		if hasV && v.Kind() == reflect.Struct {
			for i := 0; i < v.NumField() && i < len(rs.OneOf); i++ {
				f := v.Field(i)
				if isWrapper(f.Type()) && f.Field(0).Bool() {
					c.check(rs.OneOf[i], f.Field(1), j, path+fmt.Sprintf("<oneOf %d>", i))
					return
				}
			}
		}
		return
	}
	fo := &flatObj{required: map[string]bool{}}
	c.flatten(rs, fo, 0)
	if fo.isObject {
		m, ok := j.(map[string]any)
		if !ok {
			c.add("wrong-json-type", path, "object schema encoded as %T", j)
			return
		}
		declared := map[string]bool{}
		for _, p := range fo.props {
			declared[p.Name] = true
			jv, present := m[p.Name]
			var fv reflect.Value
			found := false
			if hasV {
				fv, found = findField(v, p.Name)
			}
			if found {
				_, omitted, _ := peel(fv)
				if omitted {
					if present {
						c.add("optional-not-omitted", path+"."+p.Name, "unset optional property present in the output")
					}
					continue
				}
				if !present {
					clause := "set-property-missing"
					if fo.required[p.Name] {
						clause = "required-missing"
					}
					c.add(clause, path+"."+p.Name, "property absent from the output")
					continue
				}
				c.check(p.Schema, fv, jv, path+"."+p.Name)
				continue
			}
			if !present {
				if fo.required[p.Name] {
					c.add("required-missing", path+"."+p.Name, "required property absent from the output")
				}
				continue
			}
			c.check(p.Schema, reflect.Value{}, jv, path+"."+p.Name)
		}
		// additional properties: map entries under their own keys, nothing undeclared otherwise
		var extra reflect.Value
		if hasV && v.Kind() == reflect.Struct {
			extra = v.FieldByName("AdditionalProperties")
		} else if hasV && v.Kind() == reflect.Map {
			extra = v
		}
		want := map[string]reflect.Value{}
		if extra.IsValid() && extra.Kind() == reflect.Map {
			it := extra.MapRange()
			for it.Next() {
				want[it.Key().String()] = it.Value()
			}
		}
		for k, ev := range want {
			jv, present := m[k]
			if declared[k] {
				continue
			}
			if !present {
				c.add("map-entry-missing", path+"["+fmt.Sprintf("%q", k)+"]", "map entry not written under its own key")
				continue
			}
			if fo.add != nil {
				c.check(fo.add, ev, jv, path+"["+fmt.Sprintf("%q", k)+"]")
			}
		}
		for k := range m {
			if declared[k] {
				continue
			}
			if _, ok := want[k]; ok {
				continue
			}
			if hasV && (extra.IsValid() || (!fo.addAny && fo.add == nil)) {
				c.add("undeclared-key", path+"."+k, "key is neither a declared property nor a map entry of the value")
			} else if !fo.addAny && fo.add == nil {
				c.add("undeclared-key", path+"."+k, "key not declared by the schema")
			}
		}
		return
	}
	switch rs.Type {
	case "array":
		l, ok := j.([]any)
		if !ok {
			c.add("wrong-json-type", path, "array schema encoded as %T", j)
			return
		}
		if hasV && v.Kind() == reflect.Slice {
			if v.Len() != len(l) {
				c.add("array-length", path, "%d elements written for %d", len(l), v.Len())
				return
			}
			for i := range l {
				c.check(rs.Items, v.Index(i), l[i], fmt.Sprintf("%s[%d]", path, i))
			}
			return
		}
		for i := range l {
			c.check(rs.Items, reflect.Value{}, l[i], fmt.Sprintf("%s[%d]", path, i))
		}
	case "boolean":
		b, ok := j.(bool)
		if !ok {
			c.add("wrong-json-type", path, "boolean encoded as %T", j)
		} else if hasV && v.Kind() == reflect.Bool && v.Bool() != b {
			c.add("wrong-value", path, "%v written for %v", b, v.Bool())
		}
	case "integer", "number":
		n, ok := j.(json.Number)
		if !ok {
			c.add("wrong-json-type", path, "%s encoded as %T", rs.Type, j)
			return
		}
		if rs.Type == "integer" {
			if _, err := n.Int64(); err != nil {
				if f, ferr := n.Float64(); ferr != nil || f != float64(int64(f)) {
					c.add("wrong-json-type", path, "integer encoded as %s", n)
				}
			}
		}
		if hasV {
			switch v.Kind() {
			case reflect.Int, reflect.Int32, reflect.Int64:
				if i, err := n.Int64(); err != nil || i != v.Int() {
					c.add("wrong-value", path, "%s written for %d", n, v.Int())
				}
			case reflect.Float32, reflect.Float64:
				f, err := n.Float64()
				want := v.Float()
				if err != nil || (f != want && float64(float32(f)) != want) {
					c.add("wrong-value", path, "%s written for %v", n, want)
				}
			}
		}
	case "string":
		s, ok := j.(string)
		if !ok {
			c.add("wrong-json-type", path, "string encoded as %T", j)
			return
		}
		if rs.Format == "date-time" {
			layout := time.RFC3339Nano
			// goag's private layout extension (a quoted Go layout literal): the documented wire form is that layout
			if ext, ok := rs.Ext["x-goag-go-time-format"].(string); ok {
				if l, err := strconv.Unquote(ext); err == nil {
					layout = l
				}
			}
			t, err := time.Parse(layout, s)
			if err != nil && layout != time.RFC3339Nano {
				// RFC 3339 is the declared format; goag applies the layout to properties but not to array
				// items, and either wire form is accepted here (agreement of encoder and decoder is C07/C10's
				// round trip, not this clause)
				t, err = time.Parse(time.RFC3339Nano, s)
			}
			if err != nil {
				c.add("format", path, "date-time written as %q", s)
			} else if hasV && (v.Type() == tTime || v.Type().ConvertibleTo(tTime)) && v.Kind() == reflect.Struct {
				if !t.Equal(v.Convert(tTime).Interface().(time.Time)) {
					c.add("wrong-value", path, "%q written for %v", s, v.Convert(tTime).Interface())
				}
			}
			return
		}
		if hasV && v.Kind() == reflect.String && v.String() != s {
			c.add("wrong-value", path, "%q written for %q", s, v.String())
		}
	}
}

// Conform checks output (JSON bytes) produced for v against schema sc of spec s.
func Conform(s *spec.Spec, sc *spec.Schema, v reflect.Value, out []byte) []problem {
	dec := json.NewDecoder(strings.NewReader(string(out)))
	dec.UseNumber()
	var j any
	if err := dec.Decode(&j); err != nil {
		return []problem{{"invalid-json", "", err.Error()}}
	}
	c := &conformer{s: s}
	c.check(sc, v, j, "$")
	return c.probs
}
