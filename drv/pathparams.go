package drv

import (
	"context"
	"encoding/json"
	"fmt"
	"net/http"
	"reflect"
	"strings"

	"verif/refmodel"
)

func init() { Handlers["C05"] = c05 }

type PType struct {
	Type   string `json:"type"`
	Format string `json:"format,omitempty"`
}

// PathPayload: routing state whose variables carry types.
type PathPayload struct {
	RoutePayload
	VarTypes map[string]map[string]PType `json:"varTypes"` // template -> variable name -> type
	// VarTypesByOp overrides VarTypes for one operation ("METHOD template"): sibling operations of a
	// path item may declare the same variable differently
	VarTypesByOp map[string]map[string]PType `json:"varTypesByOp,omitempty"`
}

// c05: whenever a request is dispatched, Parse() yields for every path parameter the typed value of
// exactly the request segment at that template position, or fails naming the parameter.
func c05(p *Pkg, _ *Pkg, payload json.RawMessage, res *Result) {
	var pl PathPayload
	if err := json.Unmarshal(payload, &pl); err != nil {
		res.Internal = err.Error()
		return
	}
	api, err := NewAPI(p)
	if err != nil {
		res.Violate(Violation{Attrs: map[string]string{"kind": "surface"}, Observed: err.Error()})
		return
	}
	type obs struct {
		op     *Op
		params reflect.Value
		err    error
		pn     string
	}
	var cur *obs
	resp := map[*Op]reflect.Value{}
	for _, op := range api.Ops {
		resp[op] = DefaultResponse(op)
		api.Install(op, func(op *Op, ctx context.Context, req reflect.Value) reflect.Value {
			o := &obs{op: op}
			o.pn = Catch(func() { o.params, o.err = Parse(op, req) })
			cur = o
			return resp[op]
		})
	}
	api.SetField("NotFoundHandler", http.HandlerFunc(func(w http.ResponseWriter, r *http.Request) { w.WriteHeader(404) }))
	for _, prefix := range pl.Prefixes {
		enumPaths(pl.Segs, pl.MaxDepth, func(path string) {
			full := prefix + path
			for _, method := range pl.Methods {
				cur = nil
				rec := NewRecorder()
				if pn := Catch(func() { api.ServeHTTP(rec, NewRequest(method, full, "", nil, nil)) }); pn != "" {
					res.Violate(Violation{Attrs: map[string]string{"kind": "panic"}, Input: method + " " + full, Observed: pn})
					continue
				}
				res.Count("requests", 1)
				if cur == nil {
					continue
				}
				res.Count("dispatched", 1)
				in := method + " " + full + " -> " + cur.op.Path
				bad := func(kind, param string, pt PType, lexClass, observed, expected string) {
					res.Violate(Violation{Attrs: map[string]string{"kind": kind, "ptype": pt.Type + "/" + pt.Format, "lex": lexClass, "base": pl.BaseName},
						Input: in + " param=" + param, Observed: observed, Expected: expected, Detail: pl})
				}
				if cur.pn != "" {
					bad("panic-in-parse", "", PType{}, "", cur.pn, "value or error")
					continue
				}
				rest, ok := refmodel.Rest(pl.Base, full)
				tsegs := refmodel.Segs(cur.op.Path)
				if !ok {
					continue // mis-dispatch is C03's business
				}
				rsegs := refmodel.Segs(rest)
				if len(rsegs) != len(tsegs) {
					continue
				}
				// reference verdict per parameter
				type pv struct {
					name string
					pt   PType
					seg  string
					lx   refmodel.Lexed
				}
				var pvs []pv
				mustFail, dontCare := []string{}, false
				for i, ts := range tsegs {
					if !refmodel.IsVar(ts) {
						continue
					}
					name := ts[1 : len(ts)-1]
					pt := pl.VarTypes[cur.op.Path][name]
					if m, ok := pl.VarTypesByOp[cur.op.Method+" "+cur.op.Path]; ok {
						pt = m[name]
					}
					lx := refmodel.Lex(pt.Type, pt.Format, rsegs[i])
					if rsegs[i] == "" {
						lx = refmodel.Lexed{V: refmodel.MustFail}
					}
					pvs = append(pvs, pv{name, pt, rsegs[i], lx})
					switch lx.V {
					case refmodel.MustFail:
						mustFail = append(mustFail, name)
					case refmodel.DontCare:
						dontCare = true
					}
				}
				if len(pvs) == 0 {
					continue
				}
				res.Count("judged", 1)
				switch {
				case len(mustFail) > 0:
					res.Count("expect-fail", 1)
					if cur.err == nil {
						for _, v := range pvs {
							if v.lx.V == refmodel.MustFail {
								got := "?"
								if f, ok := pathField(cur.params, v.name); ok {
									got = AbsString(Abstract(f))
								}
								cls := "garbage"
								if v.seg == "" {
									cls = "empty"
								}
								bad("accepted-bad-segment", v.name, v.pt, cls, fmt.Sprintf("Parse() succeeded, %s=%s from segment %q", v.name, got, v.seg), "error naming "+v.name)
							}
						}
					} else if !dontCare {
						named := false
						for _, n := range mustFail {
							if ErrNames(cur.err, n) {
								named = true
							}
						}
						if !named {
							bad("error-does-not-name-parameter", strings.Join(mustFail, ","), pvs[0].pt, "", "error: "+cur.err.Error(), "error naming one of "+strings.Join(mustFail, ","))
						}
					}
				case dontCare:
					res.Count("dontcare", 1)
				default:
					res.Count("expect-ok", 1)
					if cur.err != nil {
						bad("rejected-good-segments", "", pvs[0].pt, "", "error: "+cur.err.Error(), "success")
						break
					}
					for _, v := range pvs {
						f, ok := pathField(cur.params, v.name)
						if !ok {
							bad("surface", v.name, v.pt, "", "no Path field for parameter "+v.name, "")
							continue
						}
						got := Abstract(f)
						if !AbsEqual(got, v.lx.Val) {
							bad("wrong-value", v.name, v.pt, "", fmt.Sprintf("%s=%s", v.name, AbsString(got)), fmt.Sprintf("%s=%s (typed value of segment %q)", v.name, AbsString(v.lx.Val), v.seg))
						}
					}
				}
			}
		})
	}
	res.Sample(map[string]any{"state": pl.State, "requests": res.Counters["requests"], "dispatched": res.Counters["dispatched"], "judged": res.Counters["judged"]})
}

func pathField(params reflect.Value, name string) (reflect.Value, bool) {
	pf := params.FieldByName("Path")
	if !pf.IsValid() {
		return reflect.Value{}, false
	}
	return FieldFor(pf, name)
}
