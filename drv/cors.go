package drv

import (
	"context"
	"encoding/json"
	"fmt"
	"net/http"
	"reflect"
	"sort"
	"strings"
)

func init() { Handlers["C17"] = c17 }

type CorsPath struct {
	Path       string   `json:"path"`
	ReqPath    string   `json:"reqPath"`
	Methods    []string `json:"methods"`    // declared methods (without a synthetic OPTIONS)
	Headers    []string `json:"headers"`    // expected advertised headers: canonical, de-duplicated
	HasOptions bool     `json:"hasOptions"` // an OPTIONS operation is declared
}

type CorsPayload struct {
	State      string     `json:"state"`
	Cors       bool       `json:"cors"`
	Paths      []CorsPath `json:"paths"`
	Undeclared []string   `json:"undeclared"`
}

func sortedCopy(l []string) []string {
	c := append([]string{}, l...)
	sort.Strings(c)
	return c
}

// c17: CORS preflight advertises exactly what the path declares.
func c17(p *Pkg, _ *Pkg, payload json.RawMessage, res *Result) {
	var pl CorsPayload
	if err := json.Unmarshal(payload, &pl); err != nil {
		res.Internal = err.Error()
		return
	}
	for _, handlerSet := range []bool{true, false} {
		api, err := NewAPI(p)
		if err != nil {
			res.Violate(Violation{Attrs: map[string]string{"kind": "surface"}, Observed: err.Error()})
			return
		}
		type call struct{ methods, headers []string }
		var calls []call
		var corsServed int
		var ranOp *Op
		resp := map[*Op]reflect.Value{}
		for _, op := range api.Ops {
			resp[op] = DefaultResponse(op)
			api.Install(op, func(op *Op, ctx context.Context, req reflect.Value) reflect.Value {
				ranOp = op
				return resp[op]
			})
		}
		hasField := api.HasField("CORSHandler")
		if pl.Cors && !hasField {
			res.Violate(Violation{Attrs: map[string]string{"kind": "surface"}, Observed: "cors enabled but API has no CORSHandler field"})
			return
		}
		if hasField && handlerSet {
			f := api.Ptr.Elem().FieldByName("CORSHandler")
			f.Set(reflect.MakeFunc(f.Type(), func(args []reflect.Value) []reflect.Value {
				c := call{}
				for i := 0; i < args[0].Len(); i++ {
					c.methods = append(c.methods, args[0].Index(i).String())
				}
				for i := 0; i < args[1].Len(); i++ {
					c.headers = append(c.headers, args[1].Index(i).String())
				}
				calls = append(calls, c)
				h := http.Handler(http.HandlerFunc(func(w http.ResponseWriter, r *http.Request) {
					corsServed++
					w.WriteHeader(204)
				}))
				return []reflect.Value{reflect.ValueOf(&h).Elem()}
			}))
		}
		// authenticators accept everything (security is C11's business) so declared OPTIONS operations run
		for i := 0; i < api.Ptr.Elem().NumField(); i++ {
			f := api.Ptr.Elem().Field(i)
			if strings.HasPrefix(api.Ptr.Elem().Type().Field(i).Name, "Security") && f.Kind() == reflect.Func {
				fn := func(r *http.Request, token string) (*http.Request, bool) { return r, true }
				if reflect.TypeOf(fn).ConvertibleTo(f.Type()) {
					f.Set(reflect.ValueOf(fn).Convert(f.Type()))
				}
			}
		}
		notFound := 0
		api.SetField("NotFoundHandler", http.HandlerFunc(func(w http.ResponseWriter, r *http.Request) { notFound++; w.WriteHeader(404) }))
		serve := func(path string) string {
			calls, corsServed, ranOp, notFound = nil, 0, nil, 0
			hdr := http.Header{}
			hdr.Set("Authorization", "Bearer t")
			hdr.Set("X-Key", "t")
			return Catch(func() { api.ServeHTTP(NewRecorder(), NewRequest("OPTIONS", path, "", hdr, nil)) })
		}
		bad := func(kind, in, observed, expected string) {
			res.Violate(Violation{Attrs: map[string]string{"kind": kind, "cors": fmt.Sprint(pl.Cors), "handler": fmt.Sprint(handlerSet)}, Input: in, Observed: observed, Expected: expected, Detail: pl})
		}
		for _, cp := range pl.Paths {
			in := "OPTIONS " + cp.ReqPath + " (" + cp.Path + ")"
			pn := serve(cp.ReqPath)
			res.Count("requests", 1)
			if pn != "" {
				bad("panic", in, pn, "")
				continue
			}
			obs := fmt.Sprintf("cors-constructor-calls=%d cors-served=%d op=%v notfound=%d", len(calls), corsServed, opName(ranOp), notFound)
			switch {
			case cp.HasOptions:
				res.Count("declared-options", 1)
				if ranOp == nil || ranOp.Method != "OPTIONS" || ranOp.Path != cp.Path || len(calls) != 0 {
					bad("declared-options-shadowed", in, obs, "the declared OPTIONS operation runs, CORS handler not consulted")
				}
			case pl.Cors && handlerSet:
				res.Count("preflight", 1)
				if len(calls) != 1 || corsServed != 1 || ranOp != nil {
					bad("preflight-not-answered", in, obs, "CORS handler constructed once and serving the request")
					break
				}
				gm, wm := strings.Join(calls[0].methods, ","), strings.Join(sortedCopy(cp.Methods), ",")
				if strings.Join(sortedCopy(calls[0].methods), ",") != wm {
					bad("methods", in, "methods=["+gm+"]", "methods=["+wm+"] (as a set, no duplicates)")
				}
				gh, wh := strings.Join(calls[0].headers, ","), strings.Join(sortedCopy(cp.Headers), ",")
				if strings.Join(sortedCopy(calls[0].headers), ",") != wh {
					bad("headers", in, "headers=["+gh+"]", "headers=["+wh+"] (canonical, de-duplicated)")
				}
			default:
				res.Count("expect-notfound", 1)
				if !pl.Cors && ranOp != nil && ranOp.Method == "OPTIONS" && ranOp.Path != cp.Path && len(calls) == 0 {
					// cors off: plain routing. A sibling template that declares OPTIONS and also matches this
					// request path may take it (C03 don't-care: best path lacks the method, a dominated one has it)
					res.Count("sibling-options", 1)
					break
				}
				if ranOp != nil || len(calls) != 0 || corsServed != 0 || notFound != 1 {
					bad("not-notfound", in, obs, "not found (cors off or no CORS handler installed)")
				}
			}
		}
		for _, u := range pl.Undeclared {
			pn := serve(u)
			res.Count("requests", 1)
			if pn != "" {
				bad("panic", "OPTIONS "+u, pn, "")
				continue
			}
			if ranOp != nil || len(calls) != 0 || notFound != 1 {
				bad("undeclared-path", "OPTIONS "+u, fmt.Sprintf("calls=%d op=%v notfound=%d", len(calls), opName(ranOp), notFound), "not found")
			}
		}
	}
	res.Sample(map[string]any{"state": pl.State, "requests": res.Counters["requests"], "preflight": res.Counters["preflight"]})
}

func opName(o *Op) string {
	if o == nil {
		return "-"
	}
	return o.Method + " " + o.Path
}
