package drv

import (
	"context"
	"encoding/json"
	"fmt"
	"net/http"
	"net/url"
	"reflect"
	"sort"
	"strings"

	"verif/refmodel"
)

func init() { Handlers["C11"] = c11 }

type SecPayload struct {
	State   string            `json:"state"`
	Schemes []refmodel.Scheme `json:"schemes"`
	Ops     []refmodel.SecOp  `json:"ops"`
}

type markKey struct{}

// authField finds the API field of a scheme's authenticator.
func authField(api *API, s refmodel.Scheme) (reflect.Value, bool) {
	t := api.Ptr.Elem().Type()
	want := ""
	switch s.Kind {
	case "bearer":
		want = NormName("SecurityBearerAuth")
	case "apikey-hdr", "apikey-query":
		want = NormName("SecurityAPIKeyAuth" + s.Name)
	default:
		return reflect.Value{}, false
	}
	for i := 0; i < t.NumField(); i++ {
		if NormName(t.Field(i).Name) == want {
			return api.Ptr.Elem().Field(i), true
		}
	}
	return reflect.Value{}, false
}

// c11: the handler runs only after one alternative of the operation's own effective requirement was
// accepted by the matching authenticator and receives the request it returned; otherwise 401.
func c11(p *Pkg, _ *Pkg, payload json.RawMessage, res *Result) {
	var pl SecPayload
	if err := json.Unmarshal(payload, &pl); err != nil {
		res.Internal = err.Error()
		return
	}
	schemes := map[string]refmodel.Scheme{}
	var keys []string
	for _, s := range pl.Schemes {
		schemes[s.Key] = s
		keys = append(keys, s.Key)
	}
	sort.Strings(keys)
	// authenticator configurations: every subset of supported schemes installed
	var supported []string
	for _, k := range keys {
		if schemes[k].Kind != "unsupported" {
			supported = append(supported, k)
		}
	}
	for mask := 0; mask < 2<<len(supported); mask++ {
		// the top bit selects what a rejecting authenticator returns as request: the incoming one or nil
		nilOnReject := mask>>len(supported)&1 == 1
		mask := mask & (1<<len(supported) - 1)
		api, err := NewAPI(p)
		if err != nil {
			res.Violate(Violation{Attrs: map[string]string{"kind": "surface"}, Observed: err.Error()})
			return
		}
		installed := map[string]bool{}
		var consulted []string
		for i, k := range supported {
			if mask&(1<<i) == 0 {
				installed[k] = true
			}
		}
		for _, k := range supported {
			s := schemes[k]
			f, ok := authField(api, s)
			if !ok {
				// a declared but never required scheme may have no field; a required one must
				if installed[k] && schemeRequired(pl, k) {
					conj := "0"
					for _, o := range pl.Ops {
						for _, alt := range o.Effective {
							if len(alt) > 1 {
								conj = "1"
							}
						}
					}
					res.Violate(Violation{Attrs: map[string]string{"kind": "surface", "scheme": s.Kind, "stateConj": conj}, Observed: "no authenticator field on API for scheme " + k + " (" + s.Kind + " " + s.Name + ")"})
				}
				continue
			}
			if !installed[k] {
				continue
			}
			k := k
			fn := func(r *http.Request, token string) (*http.Request, bool) {
				consulted = append(consulted, k)
				if token == goodToken(k) {
					return r.WithContext(context.WithValue(r.Context(), markKey{}, k)), true
				}
				if nilOnReject {
					return nil, false
				}
				return r, false
			}
			fv := reflect.ValueOf(fn)
			if !fv.Type().ConvertibleTo(f.Type()) {
				res.Violate(Violation{Attrs: map[string]string{"kind": "surface", "scheme": s.Kind}, Observed: fmt.Sprintf("authenticator field for %s has unexpected type %s", k, f.Type())})
				continue
			}
			f.Set(fv.Convert(f.Type()))
		}
		var ranOp *Op
		var seenMark any
		resp := map[*Op]reflect.Value{}
		for _, op := range api.Ops {
			resp[op] = DefaultResponse(op)
			api.Install(op, func(op *Op, ctx context.Context, req reflect.Value) reflect.Value {
				ranOp = op
				hr := req.MethodByName("HTTP").Call(nil)[0].Interface().(*http.Request)
				seenMark = hr.Context().Value(markKey{})
				return resp[op]
			})
		}
		for _, sop := range pl.Ops {
			// credential states: absent / valid / invalid per scheme, plus (for at most one header-borne
			// scheme per request) a present but malformed header: empty, blank, the bare scheme word
			malformed := func(kind string) []string {
				switch kind {
				case "bearer":
					return []string{"", " ", "Bearer", "Bearer "}
				case "apikey-hdr":
					return []string{""}
				}
				return nil
			}
			n := len(keys)
			dom := make([]int, n)
			total := 1
			for i, k := range keys {
				dom[i] = 3 + len(malformed(schemes[k].Kind))
				total *= dom[i]
			}
			for c := 0; c < total; c++ {
				creds := map[string]refmodel.Cred{}
				hdr := http.Header{}
				q := url.Values{}
				x := c
				var desc []string
				nMal := 0
				malKey := ""
				for i, k := range keys {
					st := x % dom[i]
					x /= dom[i]
					s := schemes[k]
					if st >= 3 {
						// no usable credential: judged as absent or as invalid, whichever the implementation treats it as
						nMal++
						malKey = k
						val := malformed(s.Kind)[st-3]
						creds[k] = refmodel.Cred{Installed: installed[k]}
						desc = append(desc, fmt.Sprintf("%s(%s)=malformed%q/%s", k, s.Kind, val, map[bool]string{true: "installed", false: "nil"}[installed[k]]))
						if s.Kind == "bearer" {
							hdr["Authorization"] = []string{val}
						} else {
							hdr[http.CanonicalHeaderKey(s.Name)] = []string{val}
						}
						continue
					}
					cr := refmodel.Cred{Present: st != 0, Valid: st == 1, Installed: installed[k]}
					creds[k] = cr
					tok := map[int]string{1: goodToken(k), 2: "bad"}[st]
					desc = append(desc, fmt.Sprintf("%s(%s)=%s/%s", k, s.Kind, []string{"absent", "valid", "invalid"}[st], map[bool]string{true: "installed", false: "nil"}[installed[k]]))
					if st == 0 {
						continue
					}
					switch s.Kind {
					case "bearer":
						hdr.Set("Authorization", "Bearer "+tok)
					case "apikey-hdr":
						hdr.Set(s.Name, tok)
					case "apikey-query":
						q.Set(s.Name, tok)
					case "unsupported":
						hdr.Set("X-Unsupported-"+k, tok)
					}
				}
				if nMal > 1 {
					continue
				}
				// schemes that read the same header see the same value: what each of them holds follows from the
				// header actually sent (the last one set), not from its own state alone
				carrier := func(s refmodel.Scheme) string {
					switch s.Kind {
					case "bearer":
						return "Authorization"
					case "apikey-hdr":
						return http.CanonicalHeaderKey(s.Name)
					}
					return ""
				}
				shared := false
				for i, k := range keys {
					for _, k2 := range keys[i+1:] {
						if c := carrier(schemes[k]); c != "" && c == carrier(schemes[k2]) {
							shared = true
						}
					}
				}
				if shared {
					if nMal > 0 {
						continue
					}
					for _, k := range keys {
						c := carrier(schemes[k])
						n := 0
						for _, k2 := range keys {
							if carrier(schemes[k2]) == c {
								n++
							}
						}
						if c == "" || n < 2 {
							continue
						}
						val := hdr.Get(c)
						want := goodToken(k)
						if schemes[k].Kind == "bearer" {
							want = "Bearer " + goodToken(k)
						}
						creds[k] = refmodel.Cred{Present: val != "", Valid: val == want, Installed: installed[k]}
					}
					desc = append(desc, fmt.Sprintf("(shared header carries %q)", hdr.Get(carrier(schemes[keys[0]]))))
				}
				in := sop.Method + " " + sop.Path + " " + strings.Join(desc, " ")
				ranOp, seenMark, consulted = nil, nil, nil
				rec := NewRecorder()
				pn := Catch(func() { api.ServeHTTP(rec, NewRequest(sop.Method, sop.Path, q.Encode(), hdr, nil)) })
				res.Count("requests", 1)
				v := refmodel.Secure(sop, schemes, creds)
				ambiguous := false
				if nMal == 1 {
					// the malformed credential read as present-but-invalid must give the same verdict on whether
					// the handler runs; where the two readings differ either is accepted
					c2 := map[string]refmodel.Cred{}
					for k, cr := range creds {
						c2[k] = cr
					}
					c2[malKey] = refmodel.Cred{Present: true, Valid: false, Installed: installed[malKey]}
					if v2 := refmodel.Secure(sop, schemes, c2); v2.HandlerRuns != v.HandlerRuns || v2.Public != v.Public {
						res.Count("malformed-ambiguous", 1)
						ambiguous = true
					} else {
						res.Count("malformed", 1)
					}
				}
				attrs := secAttrs(pl, sop, schemes, installed)
				bad := func(kind, observed, expected string) {
					a := map[string]string{"kind": kind}
					for k, v := range attrs {
						a[k] = v
					}
					res.Violate(Violation{Attrs: a, Input: in, Observed: observed, Expected: expected, Detail: pl})
				}
				if pn != "" {
					bad("panic", pn, "no panic")
					continue
				}
				if ambiguous {
					continue
				}
				ran := ranOp != nil
				switch {
				case ran && !v.HandlerRuns:
					res.Count("unauthorized", 1)
					bad("unauthorized-access", fmt.Sprintf("handler ran (status %d, context mark %v)", rec.Status, seenMark), "401, handler not invoked")
				case !ran && v.HandlerRuns:
					bad("false-401", fmt.Sprintf("handler did not run, status %d", rec.Status), "handler runs")
				case !ran:
					res.Count("rejected", 1)
					if rec.Status != 401 {
						bad("reject-status", fmt.Sprintf("status %d", rec.Status), "401")
					}
				default:
					res.Count("served", 1)
					if ranOp.Method != sop.Method || ranOp.Path != sop.Path {
						bad("wrong-operation", "ran "+ranOp.Method+" "+ranOp.Path, "")
					}
					if !v.Public {
						mk, _ := seenMark.(string)
						if !v.AcceptedBy[mk] {
							bad("context-not-from-accepting-authenticator", fmt.Sprintf("handler saw context mark %v", seenMark), fmt.Sprintf("the request returned by an accepting authenticator (one of %v)", v.AcceptedBy))
						}
					}
				}
				// an authenticator is consulted only for schemes the operation lists
				listed := map[string]bool{}
				for _, alt := range sop.Effective {
					for _, k := range alt {
						listed[k] = true
					}
				}
				for _, k := range consulted {
					if !listed[k] {
						bad("foreign-authenticator-consulted", "authenticator of "+k+" was consulted", "only authenticators of listed schemes")
						break
					}
				}
			}
		}
	}
	res.Sample(map[string]any{"state": pl.State, "requests": res.Counters["requests"], "served": res.Counters["served"], "rejected": res.Counters["rejected"]})
}

func schemeRequired(pl SecPayload, key string) bool {
	for _, o := range pl.Ops {
		for _, alt := range o.Effective {
			for _, k := range alt {
				if k == key {
					return true
				}
			}
		}
	}
	return false
}

// secAttrs: explanatory features of (operation, configuration) used to identify findings.
func secAttrs(pl SecPayload, sop refmodel.SecOp, schemes map[string]refmodel.Scheme, installed map[string]bool) map[string]string {
	b := func(x bool) string {
		if x {
			return "1"
		}
		return "0"
	}
	lists := func(o refmodel.SecOp, kind string) bool {
		for _, alt := range o.Effective {
			for _, k := range alt {
				if schemes[k].Kind == kind {
					return true
				}
			}
		}
		return false
	}
	conj, nilAuth := false, false
	for _, alt := range sop.Effective {
		if len(alt) > 1 {
			conj = true
		}
		for _, k := range alt {
			if schemes[k].Kind != "unsupported" && !installed[k] {
				nilAuth = true
			}
		}
	}
	sibBearer := false
	for _, o := range pl.Ops {
		if o.Path == sop.Path && o.Method != sop.Method && lists(o, "bearer") {
			sibBearer = true
		}
	}
	// unsupported: "all" = every alternative names an unsupported scheme, "some", "0"
	nUns := 0
	for _, alt := range sop.Effective {
		for _, k := range alt {
			if schemes[k].Kind == "unsupported" {
				nUns++
				break
			}
		}
	}
	uns := "0"
	if nUns > 0 && nUns == len(sop.Effective) {
		uns = "all"
	} else if nUns > 0 {
		uns = "some"
	}
	return map[string]string{"opConj": b(conj), "opBearer": b(lists(sop, "bearer")), "siblingBearer": b(sibBearer), "opUnsupported": uns,
		"nilAuth": b(nilAuth), "opPublic": b(len(sop.Effective) == 0)}
}

// goodToken is the credential the authenticator of scheme k accepts. It looks like a real token: JWTs
// start with "eyJ", i.e. with letters that also occur in the word "Bearer", so prefix handling that
// works on character sets instead of the literal prefix shows.
func goodToken(k string) string { return "eyJ.rea-" + k }
