package drv

import (
	"bytes"
	"context"
	"encoding/json"
	"fmt"
	"io"
	"net/http"
	"net/url"
	"reflect"
	"strings"

	"github.com/getkin/kin-openapi/openapi3"
	"github.com/getkin/kin-openapi/openapi3filter"

	"verif/refmodel"
	"verif/spec"
)

func init() { Handlers["C09"] = c09 }

type C09Payload struct {
	State    string      `json:"state"`
	Method   string      `json:"method"`
	Template string      `json:"template"`
	Base     string      `json:"base"`
	Params   []ParamDecl `json:"params"` // In: query | header | path
	Body     string      `json:"body"`   // "" | json | raw
	BodyType string      `json:"bodyType,omitempty"`
	Spec     *spec.Spec  `json:"spec"`
	SpecYAML string      `json:"specYAML"`
	Cap      int         `json:"cap"`
	// discriminated / undiscriminated oneOf inside the body schema (as for the JSON properties)
	DiscProp    string     `json:"discProp,omitempty"`
	VariantKeys [][]string `json:"variantKeys,omitempty"`
	Ambiguous   bool       `json:"ambiguous,omitempty"`
}

// value domains of §11 per location
var (
	c09PathStrings   = []string{"a", "a b", "a?b=c&d", "%41", "+", "ü", "a,b", "x.y", "a%2Fb", " "}
	c09QueryStrings  = []string{"a", "a b", "a/b", "a?b=c&d", "%41", "+", "ü", "a,b", "a=b", "#"}
	c09HeaderStrings = []string{"a", "a b", "a/b", "a?b=c&d", "%41", "+", "a,b", "\"q\""}
)

type capturingRT struct {
	api  *API
	last *http.Request
	body []byte
}

func (c *capturingRT) Do(r *http.Request) (*http.Response, error) {
	c.last = r
	c.body = nil
	if r.Body != nil {
		c.body, _ = io.ReadAll(r.Body)
		r.Body = io.NopCloser(bytes.NewReader(c.body))
	}
	rec := NewRecorder()
	// what a net/http server would deliver: the URL re-parsed from the wire form
	u, err := url.ParseRequestURI(r.URL.RequestURI())
	if err != nil {
		return nil, fmt.Errorf("request URI %q does not parse: %v", r.URL.RequestURI(), err)
	}
	sr := r.Clone(r.Context())
	sr.URL = u
	sr.RequestURI = r.URL.RequestURI()
	sr.Body = io.NopCloser(bytes.NewReader(c.body))
	c.api.ServeHTTP(rec, sr)
	status := rec.Status
	if status == 0 {
		status = 200
	}
	return &http.Response{StatusCode: status, Header: rec.H.Clone(), Body: io.NopCloser(bytes.NewReader(rec.Body)), Request: r}, nil
}

func c09(p *Pkg, _ *Pkg, payload json.RawMessage, res *Result) {
	var pl C09Payload
	if err := json.Unmarshal(payload, &pl); err != nil {
		res.Internal = err.Error()
		return
	}
	api, err := NewAPI(p)
	if err != nil {
		res.Violate(Violation{Attrs: map[string]string{"kind": "surface"}, Observed: err.Error()})
		return
	}
	op := api.Op(pl.Method, pl.Template)
	if op == nil {
		res.Violate(Violation{Attrs: map[string]string{"kind": "surface"}, Observed: "no handler for " + pl.Method + " " + pl.Template})
		return
	}
	tokens := map[string][]string{}
	api.InstallAcceptAll(tokens)
	var parsed reflect.Value
	var perr error
	var ran bool
	var rawSeen []byte
	resp := DefaultResponse(op)
	// the other operations of the package answer too, so that a request sent to the wrong one shows as such
	var wrongOp *Op
	for _, other := range api.Ops {
		if other != op {
			or := DefaultResponse(other)
			api.Install(other, func(o *Op, ctx context.Context, req reflect.Value) reflect.Value { wrongOp = o; return or })
		}
	}
	api.Install(op, func(op *Op, ctx context.Context, req reflect.Value) reflect.Value {
		ran = true
		parsed, perr = Parse(op, req)
		if perr == nil && pl.Body == "raw" {
			if b := parsed.FieldByName("Body"); b.IsValid() && b.Kind() == reflect.Interface && !b.IsNil() {
				rawSeen, _ = io.ReadAll(b.Interface().(io.Reader))
			}
		}
		return resp
	})
	rt := &capturingRT{api: api}
	nc := reflect.ValueOf(p.Funcs["NewClient"])
	if !nc.IsValid() || nc.Type().NumIn() != 2 {
		res.Violate(Violation{Attrs: map[string]string{"kind": "surface"}, Observed: "no NewClient(baseURL, httpClient)"})
		return
	}
	hc := reflect.New(nc.Type().In(1)).Elem()
	hc.Set(reflect.ValueOf(rt))
	// the caller supplies the server URL including the base path
	client := nc.Call([]reflect.Value{reflect.ValueOf("http://example.com" + pl.Base), hc})[0]
	var meth reflect.Value
	for i := 0; i < client.NumMethod(); i++ {
		m := client.Method(i)
		if m.Type().NumIn() == 2 && m.Type().In(1) == op.ParamsT {
			meth = m
		}
	}
	if !meth.IsValid() {
		res.Violate(Violation{Attrs: map[string]string{"kind": "surface"}, Observed: "client has no method taking " + op.ParamsT.Name()})
		return
	}
	// independent validator: kin-openapi's request validation against the SOURCE spec
	var router *openapi3filter.Router
	if sw, err := openapi3.NewSwaggerLoader().LoadSwaggerFromData([]byte(pl.SpecYAML)); err == nil {
		// the validator is told the same server URL the client is given
		sw.Servers = openapi3.Servers{{URL: "http://example.com" + pl.Base}}
		r := openapi3filter.NewRouter()
		if Catch(func() { err = r.AddSwagger(sw) }) == "" && err == nil {
			router = r
		}
	}
	// a body declared with a non-JSON media type is a reader on both sides; if the implementation
	// types it (both sides must then agree), it is driven like a JSON body
	if pl.Body == "raw" {
		if bf, ok := op.ParamsT.FieldByName("Body"); ok && bf.Type.Kind() != reflect.Interface {
			pl.Body = "json"
		}
	}
	// enumerate the expressible parameter sets
	groups := map[string][]string{"Query": c09QueryStrings, "Path": c09PathStrings, "Headers": c09HeaderStrings}
	pt := op.ParamsT
	doms := make([][]reflect.Value, pt.NumField())
	for i := 0; i < pt.NumField(); i++ {
		f := pt.Field(i)
		e := &valEnum{p: p, cap: pl.Cap, discProp: pl.DiscProp, variantKeys: pl.VariantKeys}
		if ss, ok := groups[f.Name]; ok {
			e.strings = ss
			e.requiredNonEmpty = true
		}
		if f.Name == "Body" && pl.Body == "raw" {
			doms[i] = []reflect.Value{reflect.Zero(f.Type)}
			continue
		}
		doms[i] = e.Enum(f.Type, 0)
		if len(doms[i]) > pl.Cap {
			doms[i] = doms[i][:pl.Cap]
			res.Count("value-cap-hit", 1)
		}
	}
	// product over groups if small, else single-group sweeps around the first value of the others
	total := 1
	for _, d := range doms {
		total *= len(d)
		if total > pl.Cap {
			break
		}
	}
	var values []reflect.Value
	build := func(idx []int) reflect.Value {
		v := reflect.New(pt).Elem()
		for i := range idx {
			if pt.Field(i).IsExported() {
				v.Field(i).Set(doms[i][idx[i]])
			}
		}
		return v
	}
	if total <= pl.Cap {
		idx := make([]int, len(doms))
		for {
			values = append(values, build(idx))
			k := 0
			for k < len(idx) {
				idx[k]++
				if idx[k] < len(doms[k]) {
					break
				}
				idx[k] = 0
				k++
			}
			if k == len(idx) {
				break
			}
		}
	} else {
		res.Count("product-cap-hit", 1)
		for i := range doms {
			for a := range doms[i] {
				idx := make([]int, len(doms))
				for j := range idx {
					if len(doms[j]) > 1 {
						idx[j] = 1 // a "set" representative where there is one
					}
				}
				idx[i] = a
				values = append(values, build(idx))
			}
		}
	}
	for _, v := range values {
		if pl.Body == "raw" {
			if b := v.FieldByName("Body"); b.IsValid() && b.Kind() == reflect.Interface {
				b.Set(reflect.ValueOf(io.NopCloser(strings.NewReader("raw\x00body \xff"))))
			}
		}
		in := showVal(v)
		ran, parsed, perr, rawSeen, wrongOp = false, reflect.Value{}, nil, nil, nil
		rt.last = nil
		var out []reflect.Value
		pn := Catch(func() { out = meth.Call([]reflect.Value{reflect.ValueOf(context.Background()), v}) })
		res.Count("calls", 1)
		bad := func(kind, clause, observed, expected string) {
			res.Violate(Violation{Attrs: map[string]string{"kind": kind, "clause": clause}, Input: in, Observed: observed, Expected: expected, Detail: map[string]any{"state": pl.State}})
		}
		if pn != "" {
			bad("panic", "", pn, "")
			continue
		}
		if !out[1].IsNil() {
			bad("client-error", errClass(out[1].Interface().(error)), "client returned error: "+out[1].Interface().(error).Error(), "the request is sent")
			continue
		}
		wire := ""
		if rt.last != nil {
			wire = rt.last.Method + " " + rt.last.URL.RequestURI() + " " + fmt.Sprint(rt.last.Header)
		}
		if !ran {
			if wrongOp != nil {
				bad("dispatched-to-another-operation", "", "the server dispatched "+wire+" to "+wrongOp.Method+" "+wrongOp.Path, "the operation the client method belongs to ("+pl.Method+" "+pl.Template+")")
				wrongOp = nil
				continue
			}
			bad("not-dispatched", "", "the server did not dispatch "+wire, "handler runs")
			continue
		}
		if perr != nil {
			bad("server-rejects-client-request", errClass(perr), "Parse() error: "+perr.Error()+" for "+wire, "handler's parsed parameters equal what was sent")
			continue
		}
		// equality of sent and parsed (Body reader compared by content)
		diff := ""
		for i := 0; i < pt.NumField(); i++ {
			f := pt.Field(i)
			if f.Name == "Body" && pl.Body == "raw" {
				if string(rawSeen) != "raw\x00body \xff" {
					diff = ".Body:raw"
				}
				continue
			}
			if d := firstDiff(v.Field(i), parsed.Field(i), "."+f.Name); d != "" && diff == "" {
				if f.Name == "Body" && pl.Ambiguous {
					// undiscriminated oneOf: a document valid for an earlier variant may come back as that variant
					be := &valEnum{p: p}
					if be.earlierVariant(v.Field(i), parsed.Field(i)) {
						res.Count("ambiguous-oneof", 1)
						continue
					}
				}
				diff = d
			}
		}
		if diff != "" {
			bad("server-sees-other-values", diff, "parsed "+showVal(parsed)+" from "+wire, "equal to what was sent")
			continue
		}
		res.Count("agree", 1)
		// the wire request is valid for the operation: reference lexer on every parameter text
		if rt.last != nil {
			if msg := c09WireValid(&pl, rt.last); msg != "" {
				bad("wire-invalid", "refmodel", msg+" in "+wire, "every parameter text lies in the lexical space of its declared type")
			}
			if router != nil && pl.Body != "raw" {
				vr := rt.last.Clone(context.Background())
				vr.Body = io.NopCloser(bytes.NewReader(rt.body))
				if len(rt.body) > 0 && vr.Header.Get("Content-Type") == "" {
					vr.Header.Set("Content-Type", "application/json")
				}
				var verr error
				pn := Catch(func() {
					route, pathParams, ferr := router.FindRoute(vr.Method, vr.URL)
					if ferr != nil {
						verr = fmt.Errorf("FindRoute: %v", ferr)
						return
					}
					verr = openapi3filter.ValidateRequest(context.Background(), &openapi3filter.RequestValidationInput{Request: vr, PathParams: pathParams, Route: route,
						Options: &openapi3filter.Options{AuthenticationFunc: func(context.Context, *openapi3filter.AuthenticationInput) error { return nil }}})
				})
				res.Count("kin-validated", 1)
				// kin-openapi's own router matches templates against the escaped path and does not find a template
				// with non-ASCII literal segments: its limitation, the parameter texts are still judged by the lexer
				nonASCII := false
				for i := 0; i < len(pl.Template); i++ {
					if pl.Template[i] >= 0x80 {
						nonASCII = true
					}
				}
				if verr != nil && nonASCII && strings.HasPrefix(verr.Error(), "FindRoute:") {
					res.Count("kin-route-not-found-non-ascii-template", 1)
					verr = nil
				}
				if pn == "" && verr != nil && !kinReqQuirk(verr) {
					bad("wire-invalid", "kin-openapi "+errClass(verr), verr.Error()+" for "+wire, "request validates under kin-openapi's request validator")
				}
			}
		}
	}
	res.Sample(map[string]any{"state": pl.State, "calls": res.Counters["calls"], "agree": res.Counters["agree"]})
}

func kinReqQuirk(err error) bool {
	s := err.Error()
	return strings.Contains(s, "match the format") || strings.Contains(s, "more than one oneOf") || strings.Contains(s, "Doesn't match schema \"oneOf\"") || strings.Contains(s, "is not nullable")
}

// c09WireValid: every declared parameter, as found on the wire, lexes under its declared type.
func c09WireValid(pl *C09Payload, r *http.Request) string {
	rest, ok := refmodel.Rest(pl.Base, r.URL.Path)
	if !ok {
		return "request path " + r.URL.Path + " is not beneath the base path " + pl.Base
	}
	// segments from the escaped path so that an encoded slash stays inside its segment
	erest, _ := refmodel.Rest(pl.Base, r.URL.EscapedPath())
	rsegs, tsegs := refmodel.Segs(erest), refmodel.Segs(pl.Template)
	_ = rest
	if len(rsegs) != len(tsegs) {
		return fmt.Sprintf("path %q has %d segments, template %s has %d", r.URL.EscapedPath(), len(rsegs), pl.Template, len(tsegs))
	}
	for _, pd := range pl.Params {
		var texts []string
		switch pd.In {
		case "query":
			texts = r.URL.Query()[pd.Name]
		case "header":
			texts = r.Header.Values(pd.Name)
		case "path":
			for i, ts := range tsegs {
				if ts == "{"+pd.Name+"}" {
					u, err := url.PathUnescape(rsegs[i])
					if err != nil {
						return "path segment " + rsegs[i] + " is not valid percent-encoding"
					}
					if u == "" {
						return "empty path segment for " + pd.Name
					}
					texts = []string{u}
				}
			}
		}
		if !pd.Array && len(texts) > 1 {
			return fmt.Sprintf("scalar parameter %s sent %d times", pd.Name, len(texts))
		}
		for _, t := range texts {
			if refmodel.Lex(pd.Type, pd.Format, t).V == refmodel.MustFail {
				return fmt.Sprintf("parameter %s text %q is outside the lexical space of %s/%s", pd.Name, t, pd.Type, pd.Format)
			}
		}
	}
	return ""
}
