package drv

import (
	"context"
	"encoding/json"
	"fmt"
	"net/http"
	"net/url"
	"reflect"
	"strings"

	"verif/refmodel"
)

func init() { Handlers["C04"] = c04 }

type ParamDecl struct {
	Name     string `json:"name"`
	In       string `json:"in"` // query | header
	Required bool   `json:"required"`
	Array    bool   `json:"array"`
	Type     string `json:"type"`
	Format   string `json:"format,omitempty"`
}

type ParamPayload struct {
	State  string      `json:"state"`
	Method string      `json:"method"`
	Path   string      `json:"path"` // template == request path (no variables)
	Params []ParamDecl `json:"params"`
}

// one way of supplying a parameter
type supply struct {
	class  string // absent | one-good | one-bad | one-dontcare | two-good | good+bad | bad+good | empty
	values []string
}

func headerSafe(s string) bool {
	if s != strings.TrimSpace(s) {
		return false
	}
	for _, r := range s {
		if r < 0x20 || r > 0x7e {
			return false
		}
	}
	return true
}

func supplies(pd ParamDecl) []supply {
	lex := refmodel.Lexemes(pd.Type, pd.Format)
	var good, bad string
	haveGood, haveBad := false, false
	out := []supply{{"absent", nil}}
	for _, l := range lex {
		if pd.In == "header" && !headerSafe(l) {
			continue
		}
		v := refmodel.Lex(pd.Type, pd.Format, l).V
		cls := map[refmodel.Verdict]string{refmodel.MustOK: "one-good", refmodel.MustFail: "one-bad", refmodel.DontCare: "one-dontcare"}[v]
		out = append(out, supply{cls, []string{l}})
		if v == refmodel.MustOK && !haveGood && l != "" {
			good, haveGood = l, true
		}
		if v == refmodel.MustFail && !haveBad && l != "" {
			bad, haveBad = l, true
		}
	}
	if haveGood {
		out = append(out, supply{"two-good", []string{good, good}})
		// a second distinct good value
		for _, l := range lex {
			if l != good && l != "" && refmodel.Lex(pd.Type, pd.Format, l).V == refmodel.MustOK && (pd.In != "header" || headerSafe(l)) {
				out = append(out, supply{"two-good", []string{good, l}})
				break
			}
		}
	}
	if haveGood && haveBad {
		out = append(out, supply{"good+bad", []string{good, bad}}, supply{"bad+good", []string{bad, good}})
	}
	return out
}

// verdict of the model for one parameter supply
type pverdict struct {
	v    refmodel.Verdict
	want any // expected abstract value on success (Unset for absent optional)
}

func judgeSupply(pd ParamDecl, s supply) pverdict {
	if len(s.values) == 0 {
		if pd.Required {
			return pverdict{v: refmodel.MustFail}
		}
		return pverdict{refmodel.MustOK, Unset{}}
	}
	if !pd.Array {
		if len(s.values) > 1 {
			return pverdict{v: refmodel.MustFail}
		}
		lx := refmodel.Lex(pd.Type, pd.Format, s.values[0])
		return pverdict{lx.V, lx.Val}
	}
	vals := make([]any, 0, len(s.values))
	dc := false
	for _, v := range s.values {
		lx := refmodel.Lex(pd.Type, pd.Format, v)
		switch lx.V {
		case refmodel.MustFail:
			return pverdict{v: refmodel.MustFail}
		case refmodel.DontCare:
			dc = true
		}
		vals = append(vals, lx.Val)
	}
	if dc {
		return pverdict{v: refmodel.DontCare}
	}
	return pverdict{refmodel.MustOK, vals}
}

// c04: parsing fails iff required-absent, scalar supplied more than once, or a value outside the
// lexical space/range; the error names the parameter; on success fields hold the typed values.
func c04(p *Pkg, _ *Pkg, payload json.RawMessage, res *Result) {
	var pl ParamPayload
	if err := json.Unmarshal(payload, &pl); err != nil {
		res.Internal = err.Error()
		return
	}
	api, err := NewAPI(p)
	if err != nil {
		res.Violate(Violation{Attrs: map[string]string{"kind": "surface"}, Observed: err.Error()})
		return
	}
	op := api.Op(pl.Method, pl.Path)
	if op == nil {
		res.Violate(Violation{Attrs: map[string]string{"kind": "surface"}, Observed: "no handler for " + pl.Method + " " + pl.Path})
		return
	}
	var params reflect.Value
	var perr error
	var ran bool
	var ppanic string
	resp := DefaultResponse(op)
	api.Install(op, func(op *Op, ctx context.Context, req reflect.Value) reflect.Value {
		ran = true
		ppanic = Catch(func() { params, perr = Parse(op, req) })
		return resp
	})
	sups := make([][]supply, len(pl.Params))
	for i, pd := range pl.Params {
		sups[i] = supplies(pd)
		if len(pl.Params) > 1 {
			// pairs: one representative per class
			seen := map[string]bool{}
			var red []supply
			for _, s := range sups[i] {
				if !seen[s.class] {
					seen[s.class] = true
					red = append(red, s)
				}
			}
			sups[i] = red
		}
	}
	idx := make([]int, len(pl.Params))
	for {
		// build the request
		q := url.Values{}
		h := http.Header{}
		var desc []string
		for i, pd := range pl.Params {
			s := sups[i][idx[i]]
			desc = append(desc, fmt.Sprintf("%s=%q", pd.Name, s.values))
			for _, v := range s.values {
				if pd.In == "query" {
					q.Add(pd.Name, v)
				} else {
					h.Add(pd.Name, v)
				}
			}
		}
		in := strings.Join(desc, " ")
		ran, params, perr, ppanic = false, reflect.Value{}, nil, ""
		rec := NewRecorder()
		pn := Catch(func() { api.ServeHTTP(rec, NewRequest(pl.Method, pl.Path, q.Encode(), h, nil)) })
		res.Count("requests", 1)
		bad := func(kind string, pd ParamDecl, cls, observed, expected string) {
			res.Violate(Violation{Attrs: map[string]string{"kind": kind, "supply": cls, "ptype": pd.Type + "/" + pd.Format, "in": pd.In, "array": fmt.Sprint(pd.Array), "required": fmt.Sprint(pd.Required)},
				Input: in, Observed: observed, Expected: expected, Detail: pl})
		}
		switch {
		case pn != "" || ppanic != "":
			bad("panic", pl.Params[0], "", pn+ppanic, "value or error")
		case !ran:
			bad("not-dispatched", pl.Params[0], "", fmt.Sprintf("handler did not run, status %d", rec.Status), "dispatch")
		default:
			var failing []string
			dontCare := false
			verdicts := make([]pverdict, len(pl.Params))
			for i, pd := range pl.Params {
				verdicts[i] = judgeSupply(pd, sups[i][idx[i]])
				switch verdicts[i].v {
				case refmodel.MustFail:
					failing = append(failing, pd.Name)
				case refmodel.DontCare:
					dontCare = true
				}
			}
			switch {
			case len(failing) > 0:
				res.Count("expect-fail", 1)
				if perr == nil {
					for i, pd := range pl.Params {
						if verdicts[i].v == refmodel.MustFail {
							got := "?"
							if f, ok := paramField(params, pd); ok {
								got = AbsString(Abstract(f))
							}
							bad("accepted-bad-input", pd, sups[i][idx[i]].class, fmt.Sprintf("Parse() succeeded with %s=%s", pd.Name, got), "error naming "+pd.Name)
						}
					}
				} else if !dontCare {
					named := false
					for _, n := range failing {
						if ErrNames(perr, n) {
							named = true
						}
					}
					if !named {
						bad("error-does-not-name-parameter", pl.Params[0], "", "error: "+perr.Error(), "error naming one of "+strings.Join(failing, ","))
					}
				}
			case dontCare:
				res.Count("dontcare", 1)
			default:
				res.Count("expect-ok", 1)
				if perr != nil {
					cls := ""
					for i := range pl.Params {
						cls += sups[i][idx[i]].class + " "
					}
					bad("rejected-good-input", pl.Params[0], strings.TrimSpace(cls), "error: "+perr.Error(), "success")
					break
				}
				for i, pd := range pl.Params {
					f, ok := paramField(params, pd)
					if !ok {
						bad("surface", pd, "", "no field for parameter "+pd.Name, "")
						continue
					}
					got := Abstract(f)
					want := verdicts[i].want
					if _, unset := want.(Unset); unset {
						if _, gu := got.(Unset); !gu {
							// an optional array may legitimately be a plain nil slice
							if l, isl := got.([]any); !(isl && len(l) == 0) {
								bad("absent-optional-is-set", pd, "absent", fmt.Sprintf("%s=%s", pd.Name, AbsString(got)), "unset")
							}
						}
						continue
					}
					if !AbsEqual(got, want) {
						bad("wrong-value", pd, sups[i][idx[i]].class, fmt.Sprintf("%s=%s", pd.Name, AbsString(got)), fmt.Sprintf("%s=%s", pd.Name, AbsString(want)))
					}
				}
			}
		}
		// next combination
		k := 0
		for k < len(idx) {
			idx[k]++
			if idx[k] < len(sups[k]) {
				break
			}
			idx[k] = 0
			k++
		}
		if k == len(idx) {
			break
		}
	}
	res.Sample(map[string]any{"state": pl.State, "requests": res.Counters["requests"], "expect-ok": res.Counters["expect-ok"], "expect-fail": res.Counters["expect-fail"]})
}

func paramField(params reflect.Value, pd ParamDecl) (reflect.Value, bool) {
	group := "Query"
	if pd.In == "header" {
		group = "Headers"
	}
	g := params.FieldByName(group)
	if !g.IsValid() {
		return reflect.Value{}, false
	}
	return FieldFor(g, pd.Name)
}
