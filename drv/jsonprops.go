package drv

import (
	"bytes"
	"context"
	"encoding/json"
	"fmt"
	"io"
	"net/http"
	"reflect"
	"regexp"
	"strings"

	"github.com/getkin/kin-openapi/openapi3"

	"verif/refmodel"
	"verif/spec"
)

func init() {
	Handlers["C06"] = jsonProp
	Handlers["C07"] = jsonProp
	Handlers["C08"] = jsonProp
}

type JSONPayload struct {
	State       string     `json:"state"`
	Mode        string     `json:"mode"` // C06 | C07 | C08
	Spec        *spec.Spec `json:"spec"`
	SpecYAML    string     `json:"specYAML"`
	Type        string     `json:"type"` // component schema name == Go type name
	Cap         int        `json:"cap"`
	DiscProp    string     `json:"discProp,omitempty"`
	VariantKeys [][]string `json:"variantKeys,omitempty"`
	Ambiguous   bool       `json:"ambiguous,omitempty"` // the state has an undiscriminated oneOf (variant choice may be ambiguous)
	// OneOfOrder: for a top-level oneOf, the alternatives in document order as the names their Go fields
	// derive from (component name for a $ref, "OneOf<i>" for an inline alternative)
	OneOfOrder []string `json:"oneOfOrder,omitempty"`
	BodyOp     string   `json:"bodyOp,omitempty"` // path of a POST operation whose JSON body is the schema
	RespOp     string   `json:"respOp,omitempty"` // path of a GET operation answering 200 with the schema
}

var tMarshaler = reflect.TypeOf((*json.Marshaler)(nil)).Elem()

func errClass(err error) string {
	s := err.Error()
	// abstract quoted strings and numbers
	var b strings.Builder
	inq := false
	for _, r := range s {
		switch {
		case r == '"' || r == '\'':
			inq = !inq
			if !inq {
				b.WriteString("Q")
			}
		case inq:
		case r >= '0' && r <= '9':
			b.WriteByte('N')
		default:
			b.WriteRune(r)
		}
	}
	out := b.String()
	if len(out) > 120 {
		out = out[:120]
	}
	return out
}

func jsonProp(p *Pkg, _ *Pkg, payload json.RawMessage, res *Result) {
	var pl JSONPayload
	if err := json.Unmarshal(payload, &pl); err != nil {
		res.Internal = err.Error()
		return
	}
	t, ok := p.Types[pl.Type]
	if !ok {
		res.Violate(Violation{Attrs: map[string]string{"kind": "surface"}, Observed: "no Go type " + pl.Type + " for component schema " + pl.Type})
		return
	}
	sc := pl.Spec.SchemaByName(pl.Type)
	if sc == nil {
		res.Internal = "schema not in view: " + pl.Type
		return
	}
	bad := func(kind, clause, in, observed, expected string) {
		attrs := map[string]string{"kind": kind, "clause": clause}
		if at := conformAt(kind, observed); at != "" {
			attrs["at"] = at
		}
		res.Violate(Violation{Attrs: attrs, Input: in, Observed: observed, Expected: expected, Detail: map[string]any{"state": pl.State}})
	}
	switch pl.Mode {
	case "C06", "C07":
		e := &valEnum{p: p, cap: pl.Cap, discProp: pl.DiscProp, variantKeys: pl.VariantKeys}
		if len(pl.OneOfOrder) > 0 {
			e.variantOrder = map[string]int{}
			for i, n := range pl.OneOfOrder {
				e.variantOrder[NormName(n)] = i
			}
		}
		vals := e.Enum(t, 0)
		if e.capHit {
			res.Count("value-cap-hit", 1)
		}
		var kin *openapi3.Schema
		if pl.Mode == "C07" {
			if sw, err := openapi3.NewSwaggerLoader().LoadSwaggerFromData([]byte(pl.SpecYAML)); err == nil && sw.Components.Schemas[pl.Type] != nil {
				kin = sw.Components.Schemas[pl.Type].Value
			}
		}
		distinct := map[string]bool{}
		var prevRaw, prevCopy []byte
		for _, v := range vals {
			res.Count("values", 1)
			in := showVal(v)
			var out []byte
			var err error
			pn := Catch(func() {
				if v.Type().Implements(tMarshaler) {
					out, err = v.Interface().(json.Marshaler).MarshalJSON()
				} else {
					out, err = json.Marshal(v.Interface())
				}
			})
			if pn != "" {
				bad("panic-in-marshal", "", in, pn, "")
				continue
			}
			if err != nil {
				bad("marshal-error", errClass(err), in, "error: "+err.Error(), "valid JSON")
				continue
			}
			distinct[string(out)] = true
			// the bytes returned for the previous value must not change when the next value is encoded
			if prevRaw != nil && string(prevRaw) != string(prevCopy) {
				bad("output-aliased", "", in, "the bytes returned by the previous MarshalJSON call changed while this value was encoded: "+firstN(string(prevRaw), 120), "each encoding owns its bytes")
			}
			prevRaw, prevCopy = out, append([]byte{}, out...)
			if !json.Valid(out) {
				bad("invalid-json", invalidClass(v), in, string(out), "syntactically valid JSON")
				continue
			}
			if pl.Mode == "C06" {
				w := reflect.New(t)
				var uerr error
				pn := Catch(func() { uerr = json.Unmarshal(out, w.Interface()) })
				if pn != "" {
					bad("panic-in-unmarshal", "", in, pn, "")
					continue
				}
				if uerr != nil {
					bad("unmarshal-error", errClass(uerr), in+" -> "+string(out), "error: "+uerr.Error(), "decoding its own output succeeds")
					continue
				}
				if !valEqual(v, w.Elem()) {
					if pl.Ambiguous {
						// undiscriminated oneOf: a document valid for two variants may come back as the other
						// variant; accepted when it re-encodes to the same JSON value
						if out2, err := json.Marshal(w.Interface()); err == nil && jsonEqual(out, out2) {
							res.Count("ambiguous-oneof", 1)
							continue
						}
						// first-success probing picked an EARLIER variant that also accepts the document
						if e.earlierVariant(v, w.Elem()) {
							res.Count("ambiguous-oneof", 1)
							continue
						}
					}
					bad("not-equal", firstDiff(v, w.Elem(), ""), in+" -> "+string(out), showVal(w.Elem()), "equal value")
				}
				continue
			}
			// C07
			probs := Conform(pl.Spec, spec.RefTo(pl.Type), v, out)
			for _, pr := range probs {
				bad("nonconforming", pr.clause, in+" -> "+string(out), pr.path+": "+pr.msg, "output valid for the source schema")
				break
			}
			// kin-openapi's visitor as a second, independent opinion on documents the walker accepts
			if kin != nil && len(probs) == 0 {
				var j any
				if json.Unmarshal(out, &j) == nil {
					if verr := kin.VisitJSON(j); verr != nil && !kinQuirk(verr) {
						bad("kin-openapi-rejects", errClass(verr), in+" -> "+string(out), verr.Error(), "output validates under kin-openapi's schema visitor")
					}
				}
			}
		}
		res.Count("distinct-outputs", int64(len(distinct)))
		if pl.Mode == "C07" {
			c07Wire(p, &pl, t, vals, res)
		}
	case "C08":
		docs := refmodel.Docs(pl.Spec, spec.RefTo(pl.Type))
		var api *API
		var bop *Op
		var parsed reflect.Value
		var perr error
		if pl.BodyOp != "" {
			a, err := NewAPI(p)
			if err == nil {
				api = a
				bop = api.Op("POST", pl.BodyOp)
				if bop != nil {
					resp := DefaultResponse(bop)
					api.Install(bop, func(op *Op, ctx context.Context, req reflect.Value) reflect.Value {
						parsed, perr = Parse(op, req)
						return resp
					})
				}
			}
		}
		for _, d := range docs {
			res.Count("documents", 1)
			d := d
			bad := func(kind, clause, in, observed, expected string) {
				res.Violate(Violation{Attrs: map[string]string{"kind": kind, "clause": clause, "docnull": fmt.Sprint(d.JSON == "null")}, Input: in, Observed: observed, Expected: expected, Detail: map[string]any{"state": pl.State}})
			}
			w := reflect.New(t)
			var uerr error
			pn := Catch(func() { uerr = json.Unmarshal([]byte(d.JSON), w.Interface()) })
			if pn != "" {
				bad("panic-in-unmarshal", "", d.JSON, pn, "")
				continue
			}
			judge := func(where string, uerr error, val reflect.Value) {
				switch {
				case d.Valid:
					res.Count("valid", 1)
					if uerr != nil {
						bad("rejected-valid-document", where+" "+errClass(uerr), d.JSON, "error: "+uerr.Error(), "decodes without error")
						return
					}
					out, merr := json.Marshal(val.Interface())
					if merr != nil {
						bad("reencode-error", where, d.JSON, merr.Error(), "")
						return
					}
					if !jsonEqual(out, []byte(d.JSON)) {
						bad("lossy-decode", where+" "+lossClass([]byte(d.JSON), out), d.JSON, "re-encoded: "+string(out), "an equivalent JSON value")
					}
				default:
					res.Count("fault-"+d.Fault, 1)
					if uerr == nil {
						bad("accepted-faulty-document", where+" "+d.Fault+" "+d.Note, d.JSON, "decoded without error", "error naming "+d.Prop)
					} else if !ErrNames(uerr, d.Prop) {
						bad("error-does-not-name-property", where+" "+d.Fault, d.JSON, "error: "+uerr.Error(), "error naming "+d.Prop)
					}
				}
			}
			judge("unmarshal", uerr, w.Elem())
			if bop != nil {
				parsed, perr = reflect.Value{}, nil
				rec := NewRecorder()
				pn := Catch(func() {
					api.ServeHTTP(rec, NewRequest("POST", pl.BodyOp, "", http.Header{"Content-Type": {"application/json"}}, io.NopCloser(strings.NewReader(d.JSON))))
				})
				res.Count("body-requests", 1)
				if pn != "" {
					bad("panic-in-serve", "", d.JSON, pn, "")
					continue
				}
				if !parsed.IsValid() && perr == nil {
					bad("not-dispatched", "", d.JSON, fmt.Sprintf("status %d", rec.Status), "")
					continue
				}
				var bv reflect.Value
				if parsed.IsValid() {
					bv = parsed.FieldByName("Body")
				}
				if perr == nil && !bv.IsValid() {
					bad("surface", "", d.JSON, "Params has no Body field", "")
					continue
				}
				judge("request-body", perr, bv)
			}
		}
	}
	res.Sample(map[string]any{"state": pl.State, "values": res.Counters["values"], "documents": res.Counters["documents"]})
}

// invalidClass says why an output is not JSON, coarsely: a map key needing escapes, or object syntax.
func invalidClass(v reflect.Value) string {
	special := false
	var walk func(v reflect.Value)
	walk = func(v reflect.Value) {
		switch v.Kind() {
		case reflect.Map:
			for _, k := range v.MapKeys() {
				if strings.ContainsAny(k.String(), "\"\\\x00\n") {
					special = true
				}
				walk(v.MapIndex(k))
			}
		case reflect.Struct:
			for i := 0; i < v.NumField(); i++ {
				if v.Type().Field(i).IsExported() {
					walk(v.Field(i))
				}
			}
		case reflect.Slice:
			for i := 0; i < v.Len(); i++ {
				walk(v.Index(i))
			}
		case reflect.Interface, reflect.Ptr:
			if !v.IsNil() {
				walk(v.Elem())
			}
		}
	}
	walk(v)
	if special {
		return "map-key-needs-escaping"
	}
	return "object-syntax"
}

// kinQuirk: verdicts of kin-openapi 0.38 that are about its own limits, not about the document.
func kinQuirk(err error) bool {
	s := err.Error()
	return strings.Contains(s, "Unsupported 'format'") || strings.Contains(s, "unsupported 'format'") ||
		strings.Contains(s, "more than one oneOf") || // kin ignores the discriminator; overlapping variants
		strings.Contains(s, "match the format") || // the value alphabet of string formats other than date-time is plain text
		strings.Contains(s, "Doesn't match schema \"oneOf\"") || // oneOf is judged through the chosen variant by the walker
		strings.Contains(s, "is not nullable") // kin 0.38 rejects null for the empty (any) schema; nullability is the walker's clause
}

// lossClass says what a lossy decode lost, coarsely (for the violation class).
func lossClass(doc, out []byte) string {
	var a, b any
	da := json.NewDecoder(bytes.NewReader(doc))
	da.UseNumber()
	db := json.NewDecoder(bytes.NewReader(out))
	db.UseNumber()
	if da.Decode(&a) != nil || db.Decode(&b) != nil {
		return "unparseable"
	}
	return diffClass(a, b, 0)
}

func diffClass(a, b any, depth int) string {
	switch x := a.(type) {
	case map[string]any:
		y, ok := b.(map[string]any)
		if !ok {
			return "type-changed"
		}
		for k, v := range x {
			w, ok := y[k]
			if !ok {
				return "key-lost"
			}
			if !jvEqual(v, w) {
				if depth < 3 {
					return diffClass(v, w, depth+1)
				}
				return "value-changed"
			}
		}
		for k := range y {
			if _, ok := x[k]; !ok {
				return "key-added"
			}
		}
	case []any:
		y, ok := b.([]any)
		if !ok {
			return "type-changed"
		}
		if len(x) != len(y) {
			return "array-length"
		}
		for i := range x {
			if !jvEqual(x[i], y[i]) {
				return diffClass(x[i], y[i], depth+1)
			}
		}
	case json.Number:
		if _, ok := b.(json.Number); ok {
			return "number-changed"
		}
		return "type-changed"
	case string:
		if _, ok := b.(string); ok {
			return "string-changed"
		}
		return "type-changed"
	}
	if a == nil && b != nil {
		return "null-lost"
	}
	return "value-changed"
}

// c07Wire: the same conformance for every response body a handler writes and every request body the
// generated client sends (when the state has such operations).
func c07Wire(p *Pkg, pl *JSONPayload, t reflect.Type, vals []reflect.Value, res *Result) {
	if pl.RespOp == "" && pl.BodyOp == "" {
		return
	}
	api, err := NewAPI(p)
	if err != nil {
		return
	}
	bad := func(kind, clause, in, observed string) {
		attrs := map[string]string{"kind": kind, "clause": clause}
		if at := conformAt(kind, observed); at != "" {
			attrs["at"] = at
		}
		res.Violate(Violation{Attrs: attrs, Input: in, Observed: observed, Expected: "body valid for the source schema", Detail: map[string]any{"state": pl.State}})
	}
	if rop := api.Op("GET", pl.RespOp); rop != nil && pl.RespOp != "" {
		// the constructor taking exactly one argument of the schema type
		var ctor *Ctor
		for i := range rop.Ctors {
			ft := rop.Ctors[i].Fn.Type()
			if ft.NumIn() == 1 && ft.In(0) == t {
				ctor = &rop.Ctors[i]
			}
		}
		if ctor == nil {
			bad("surface", "", "", "no response constructor taking "+pl.Type)
		} else {
			var cur reflect.Value
			api.Install(rop, func(op *Op, ctx context.Context, req reflect.Value) reflect.Value {
				return ctor.Fn.Call([]reflect.Value{cur})[0]
			})
			for _, v := range vals {
				cur = v
				rec := NewRecorder()
				pn := Catch(func() { api.ServeHTTP(rec, NewRequest("GET", pl.RespOp, "", nil, nil)) })
				res.Count("response-bodies", 1)
				if pn != "" {
					bad("panic-in-serve", "", showVal(v), pn)
					continue
				}
				body := bytes.TrimSpace(rec.Body)
				if len(body) == 0 {
					continue // encoder failed and logged: C06's business
				}
				if ct := rec.HeaderAtWH.Get("Content-Type"); ct != "application/json" {
					bad("response-content-type", "", showVal(v), "Content-Type "+ct)
				}
				for _, pr := range Conform(pl.Spec, spec.RefTo(pl.Type), v, body) {
					bad("nonconforming-response-body", pr.clause, showVal(v)+" -> "+string(body), pr.path+": "+pr.msg)
					break
				}
			}
		}
	}
	if pl.BodyOp == "" {
		return
	}
	bop := api.Op("POST", pl.BodyOp)
	newClient, _ := p.Funcs["NewClient"]
	if bop == nil || newClient == nil {
		return
	}
	var seen []byte
	httpClient := roundTripFunc(func(r *http.Request) (*http.Response, error) {
		if r.Body != nil {
			seen, _ = io.ReadAll(r.Body)
		}
		return &http.Response{StatusCode: 200, Header: http.Header{}, Body: io.NopCloser(strings.NewReader("")), Request: r}, nil
	})
	nc := reflect.ValueOf(newClient)
	if nc.Type().NumIn() != 2 {
		return
	}
	hc := reflect.New(nc.Type().In(1)).Elem()
	if !reflect.TypeOf(httpClient).Implements(nc.Type().In(1)) {
		return
	}
	hc.Set(reflect.ValueOf(httpClient))
	client := nc.Call([]reflect.Value{reflect.ValueOf("http://h"), hc})[0]
	// the client method whose second argument is the operation's Params type
	var meth reflect.Value
	for i := 0; i < client.NumMethod(); i++ {
		m := client.Method(i)
		if m.Type().NumIn() == 2 && m.Type().In(1) == bop.ParamsT {
			meth = m
		}
	}
	if !meth.IsValid() {
		return
	}
	for _, v := range vals {
		params := reflect.New(bop.ParamsT).Elem()
		bf := params.FieldByName("Body")
		if !bf.IsValid() || bf.Type() != t {
			return
		}
		bf.Set(v)
		seen = nil
		pn := Catch(func() { meth.Call([]reflect.Value{reflect.ValueOf(context.Background()), params}) })
		res.Count("client-bodies", 1)
		if pn != "" {
			bad("panic-in-client", "", showVal(v), pn)
			continue
		}
		body := bytes.TrimSpace(seen)
		if len(body) == 0 {
			continue
		}
		for _, pr := range Conform(pl.Spec, spec.RefTo(pl.Type), v, body) {
			bad("nonconforming-client-body", pr.clause, showVal(v)+" -> "+string(body), pr.path+": "+pr.msg)
			break
		}
	}
}

type roundTripFunc func(*http.Request) (*http.Response, error)

func (f roundTripFunc) Do(r *http.Request) (*http.Response, error) { return f(r) }

var reIndex = regexp.MustCompile(`\[\d+\]`)

// conformAt: where in the output a conformance problem sits - its JSON path with array indexes
// generalised ("$.f[]" for any element of f, "$.f" for f itself).
func conformAt(kind, observed string) string {
	if !strings.HasPrefix(kind, "nonconforming") {
		return ""
	}
	i := strings.Index(observed, ": ")
	if i <= 0 || !strings.HasPrefix(observed, "$") {
		return ""
	}
	return reIndex.ReplaceAllString(observed[:i], "[]")
}
