package drv

import (
	"context"
	"encoding/base64"
	"encoding/json"
	"fmt"
	"net/http"
	"reflect"
)

func init() { Handlers["C13"] = c13 }

type SpecFilePayload struct {
	State    string `json:"state"`
	RawB64   string `json:"rawB64"`   // the input spec bytes
	Base     string `json:"base"`     // normalised base path
	SpecName string `json:"specName"` // spec handler name
}

// c13: the served spec equals the input byte for byte at <base>/<name>, whatever middlewares are
// installed, on every request; the route answers only when the handler is installed.
func c13(p *Pkg, _ *Pkg, payload json.RawMessage, res *Result) {
	var pl SpecFilePayload
	if err := json.Unmarshal(payload, &pl); err != nil {
		res.Internal = err.Error()
		return
	}
	raw, _ := base64.StdEncoding.DecodeString(pl.RawB64)
	bad := func(kind, in, observed, expected string) {
		res.Violate(Violation{Attrs: map[string]string{"kind": kind}, Input: in, Observed: observed, Expected: expected, Detail: map[string]any{"state": pl.State}})
	}
	if c, ok := p.Consts["SpecFile"]; !ok || c != string(raw) {
		bad("constant-differs", "SpecFile", fmt.Sprintf("%q", firstN(c, 200)), fmt.Sprintf("%q", firstN(string(raw), 200)))
	}
	sf, ok := p.Funcs["SpecFileHandler"].(func() http.Handler)
	if !ok {
		bad("surface", "", "no SpecFileHandler() http.Handler", "")
		return
	}
	path := pl.Base + "/" + pl.SpecName
	for _, installed := range []bool{true, false} {
		for _, stack := range []int{0, 1, 2} {
			api, err := NewAPI(p)
			if err != nil {
				bad("surface", "", err.Error(), "")
				return
			}
			entered := 0
			var mws []func(http.Handler) http.Handler
			for i := 0; i < stack; i++ {
				i := i
				mws = append(mws, func(next http.Handler) http.Handler {
					return http.HandlerFunc(func(w http.ResponseWriter, r *http.Request) {
						entered++
						if i == 1 {
							w.WriteHeader(404) // a middleware that always answers 404
							return
						}
						next.ServeHTTP(w, r)
					})
				})
			}
			api.SetField("Middlewares", mws)
			ran := 0
			for _, op := range api.Ops {
				resp := DefaultResponse(op)
				api.Install(op, func(op *Op, ctx context.Context, req reflect.Value) reflect.Value { ran++; return resp })
			}
			notFound := 0
			api.SetField("NotFoundHandler", http.HandlerFunc(func(w http.ResponseWriter, r *http.Request) { notFound++; w.WriteHeader(404) }))
			if installed {
				api.SetField("SpecFileHandler", sf())
			}
			for rep := 0; rep < 3; rep++ {
				entered, ran, notFound = 0, 0, 0
				rec := NewRecorder()
				in := fmt.Sprintf("GET %s (handler installed=%v, %d middlewares, request #%d)", path, installed, stack, rep+1)
				if pn := Catch(func() { api.ServeHTTP(rec, NewRequest("GET", path, "", nil, nil)) }); pn != "" {
					bad("panic", in, pn, "")
					continue
				}
				res.Count("requests", 1)
				if installed {
					if rec.Status != 200 || string(rec.Body) != string(raw) {
						bad("served-body-differs", in, fmt.Sprintf("status %d, %d bytes %q", rec.Status, len(rec.Body), firstN(string(rec.Body), 120)), fmt.Sprintf("200 and exactly the %d input bytes", len(raw)))
					}
					if entered != 0 {
						bad("middleware-entered", in, fmt.Sprintf("%d middlewares entered", entered), "the spec route bypasses middlewares")
					}
				} else if rec.Status == 200 && string(rec.Body) == string(raw) && len(raw) > 0 && ran == 0 || (ran == 0 && notFound != 1 && entered == 0) {
					bad("answers-without-handler", in, fmt.Sprintf("status %d notfound=%d handlers=%d", rec.Status, notFound, ran), "treated like any other path (not found)")
				}
			}
			// overlapping requests: a second spec request runs to completion at every point where the first one
			// touches its ResponseWriter (every schedule of two requests with the second one atomic)
			if installed && stack == 0 {
				calls := 0
				count := &hookWriter{rec: NewRecorder(), hook: func() { calls++ }}
				Catch(func() { api.ServeHTTP(count, NewRequest("GET", path, "", nil, nil)) })
				for k := 1; k <= calls; k++ {
					inner := NewRecorder()
					n := 0
					outer := &hookWriter{rec: NewRecorder()}
					outer.hook = func() {
						n++
						if n == k {
							Catch(func() { api.ServeHTTP(inner, NewRequest("GET", path, "", nil, nil)) })
						}
					}
					pn := Catch(func() { api.ServeHTTP(outer, NewRequest("GET", path, "", nil, nil)) })
					res.Count("requests", 2)
					res.Count("overlap-schedules", 1)
					in := fmt.Sprintf("GET %s twice: the second request served entirely at writer call #%d of %d of the first", path, k, calls)
					if pn != "" {
						bad("panic", in, pn, "")
						continue
					}
					for name, rec := range map[string]*Recorder{"first": outer.rec, "second": inner} {
						if rec.Status != 200 || string(rec.Body) != string(raw) {
							bad("served-body-differs", in, fmt.Sprintf("%s request: status %d, %d bytes %q", name, rec.Status, len(rec.Body), firstN(string(rec.Body), 120)), fmt.Sprintf("200 and exactly the %d input bytes for both", len(raw)))
						}
					}
				}
			}
			// near misses are ordinary paths
			for _, near := range []string{path + "/", pl.Base + "/x" + pl.SpecName, "/" + pl.SpecName + "x"} {
				if near == path {
					continue
				}
				rec := NewRecorder()
				ran, notFound = 0, 0
				Catch(func() { api.ServeHTTP(rec, NewRequest("GET", near, "", nil, nil)) })
				res.Count("requests", 1)
				if installed && rec.Status == 200 && string(rec.Body) == string(raw) && len(raw) > 0 && ran == 0 {
					bad("spec-served-at-other-path", "GET "+near, "the spec was served", "only at "+path)
				}
			}
		}
	}
	res.Sample(map[string]any{"state": pl.State, "requests": res.Counters["requests"]})
}

// hookWriter forwards to a Recorder and calls hook before every ResponseWriter method.
type hookWriter struct {
	rec  *Recorder
	hook func()
}

func (h *hookWriter) Header() http.Header { h.hook(); return h.rec.Header() }
func (h *hookWriter) WriteHeader(c int)   { h.hook(); h.rec.WriteHeader(c) }
func (h *hookWriter) Write(b []byte) (int, error) {
	h.hook()
	return h.rec.Write(b)
}
