package drv

import (
	"encoding/json"
	"fmt"
	"math"
	"reflect"
	"strings"
	"time"
)

var tTime = reflect.TypeOf(time.Time{})

// NormName: lower-case letters and digits only; used to pair a spec name with the Go field the
// generator derived from it (collisions are C01's business).
func NormName(s string) string {
	var b strings.Builder
	for _, r := range strings.ToLower(s) {
		if r >= 'a' && r <= 'z' || r >= '0' && r <= '9' || r > 127 {
			b.WriteRune(r)
		}
	}
	return b.String()
}

// FieldFor finds the field of struct value v derived from spec name.
func FieldFor(v reflect.Value, name string) (reflect.Value, bool) {
	if v.Kind() != reflect.Struct {
		return reflect.Value{}, false
	}
	want := NormName(name)
	t := v.Type()
	for i := 0; i < t.NumField(); i++ {
		if NormName(t.Field(i).Name) == want {
			return v.Field(i), true
		}
	}
	return reflect.Value{}, false
}

// isWrapper: a Maybe[T]/Nullable[T]-shaped struct {IsSet bool; Value T}.
func isWrapper(t reflect.Type) bool {
	if t.Kind() != reflect.Struct || t.NumField() != 2 {
		return false
	}
	return t.Field(0).Name == "IsSet" && t.Field(0).Type.Kind() == reflect.Bool && t.Field(1).Name == "Value"
}

// Unset is the abstract "not set" (optional) / "null" (nullable) mark.
type Unset struct{}

// Abstract turns a generated value into an abstract value: Unset | bool | int64 | float64 | string |
// time.Time | []any | map[string]any | json.RawMessage (for `any`).
func Abstract(v reflect.Value) any {
	if !v.IsValid() {
		return nil
	}
	t := v.Type()
	if t == tTime {
		return v.Interface().(time.Time)
	}
	if t.Kind() == reflect.Struct && t.ConvertibleTo(tTime) {
		return v.Convert(tTime).Interface().(time.Time) // named type over time.Time (component schema)
	}
	if isWrapper(t) {
		if !v.Field(0).Bool() {
			return Unset{}
		}
		return Abstract(v.Field(1))
	}
	switch v.Kind() {
	case reflect.Bool:
		return v.Bool()
	case reflect.Int, reflect.Int8, reflect.Int16, reflect.Int32, reflect.Int64:
		return v.Int()
	case reflect.Uint, reflect.Uint8, reflect.Uint16, reflect.Uint32, reflect.Uint64:
		return int64(v.Uint())
	case reflect.Float32, reflect.Float64:
		return v.Float()
	case reflect.String:
		return v.String()
	case reflect.Slice:
		if t.Elem().Kind() == reflect.Uint8 {
			return json.RawMessage(v.Bytes())
		}
		out := make([]any, v.Len())
		for i := range out {
			out[i] = Abstract(v.Index(i))
		}
		return out
	case reflect.Map:
		out := map[string]any{}
		it := v.MapRange()
		for it.Next() {
			out[fmt.Sprint(it.Key().Interface())] = Abstract(it.Value())
		}
		return out
	case reflect.Struct:
		out := map[string]any{}
		for i := 0; i < t.NumField(); i++ {
			if t.Field(i).IsExported() {
				out[t.Field(i).Name] = Abstract(v.Field(i))
			}
		}
		return out
	case reflect.Ptr, reflect.Interface:
		if v.IsNil() {
			return nil
		}
		return Abstract(v.Elem())
	}
	return fmt.Sprintf("<%s>", t)
}

// AbsEqual compares two abstract values: times as instants, float32-rounded numbers equal.
func AbsEqual(a, b any) bool {
	switch x := a.(type) {
	case time.Time:
		y, ok := b.(time.Time)
		return ok && x.Equal(y)
	case float64:
		switch y := b.(type) {
		case float64:
			return x == y || (math.IsNaN(x) && math.IsNaN(y))
		case int64:
			return x == float64(y)
		}
		return false
	case int64:
		switch y := b.(type) {
		case int64:
			return x == y
		case float64:
			return float64(x) == y
		}
		return false
	case []any:
		y, ok := b.([]any)
		if !ok || len(x) != len(y) {
			return false
		}
		for i := range x {
			if !AbsEqual(x[i], y[i]) {
				return false
			}
		}
		return true
	case map[string]any:
		y, ok := b.(map[string]any)
		if !ok || len(x) != len(y) {
			return false
		}
		for k, v := range x {
			w, ok := y[k]
			if !ok || !AbsEqual(v, w) {
				return false
			}
		}
		return true
	case json.RawMessage:
		y, ok := b.(json.RawMessage)
		return ok && string(x) == string(y)
	}
	return reflect.DeepEqual(a, b)
}

func AbsString(a any) string {
	switch x := a.(type) {
	case time.Time:
		return x.Format(time.RFC3339Nano)
	case Unset:
		return "<unset>"
	case string:
		return fmt.Sprintf("%q", x)
	case []any:
		var l []string
		for _, e := range x {
			l = append(l, AbsString(e))
		}
		return "[" + strings.Join(l, " ") + "]"
	}
	return fmt.Sprint(a)
}
