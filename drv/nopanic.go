package drv

import (
	"context"
	"encoding/json"
	"errors"
	"fmt"
	"io"
	"net/http"
	"reflect"
	"strings"
)

func init() { Handlers["C14"] = c14 }

type SinkOp struct {
	Method  string            `json:"method"`
	Path    string            `json:"path"` // concrete request path (with base path)
	Query   string            `json:"query"`
	Headers map[string]string `json:"headers"`
	Body    string            `json:"body"`
	HasBody bool              `json:"hasBody"`
	QNames  []string          `json:"qnames"`
	HNames  []string          `json:"hnames"`
	Docs    []string          `json:"docs"` // schema-directed bodies: valid documents and single faults
}

type SinkPayload struct {
	State     string   `json:"state"`
	Ops       []SinkOp `json:"ops"`
	PathAlpha []string `json:"pathAlpha"`
	PathLen   int      `json:"pathLen"`
	BodyLen   int      `json:"bodyLen"`
	QueryLen  int      `json:"queryLen"`
	Creds     []string `json:"creds"` // header names that carry credentials
}

type errReader struct {
	data []byte
	n    int
	pos  int
}

func (e *errReader) Read(p []byte) (int, error) {
	if e.pos >= e.n || e.pos >= len(e.data) {
		return 0, errors.New("injected read error")
	}
	p[0] = e.data[e.pos]
	e.pos++
	return 1, nil
}
func (e *errReader) Close() error { return nil }

func seqs(alpha []string, maxLen int, f func(string)) {
	var rec func(cur string, n int)
	rec = func(cur string, n int) {
		f(cur)
		if n == maxLen {
			return
		}
		for _, a := range alpha {
			rec(cur+a, n+1)
		}
	}
	rec("", 0)
}

// c14: serving any request and parsing it inside a handler never panics; exactly one response.
func c14(p *Pkg, _ *Pkg, payload json.RawMessage, res *Result) {
	var pl SinkPayload
	if err := json.Unmarshal(payload, &pl); err != nil {
		res.Internal = err.Error()
		return
	}
	for _, cfg := range []string{"all-installed", "all-nil"} {
		api, err := NewAPI(p)
		if err != nil {
			res.Violate(Violation{Attrs: map[string]string{"kind": "surface"}, Observed: err.Error()})
			return
		}
		var parsePanic string
		resp := map[*Op]reflect.Value{}
		for _, op := range api.Ops {
			resp[op] = DefaultResponse(op)
			api.Install(op, func(op *Op, ctx context.Context, req reflect.Value) reflect.Value {
				parsePanic = Catch(func() {
					params, err := Parse(op, req)
					if err == nil {
						// touch the body reader if the operation hands one over
						if b := params.FieldByName("Body"); b.IsValid() && b.Kind() == reflect.Interface && !b.IsNil() {
							if r, ok := b.Interface().(io.Reader); ok {
								io.Copy(io.Discard, r)
							}
						}
					}
				})
				return resp[op]
			})
		}
		if cfg == "all-installed" {
			api.SetField("NotFoundHandler", http.HandlerFunc(func(w http.ResponseWriter, r *http.Request) { w.WriteHeader(404) }))
			if sf, ok := p.Funcs["SpecFileHandler"].(func() http.Handler); ok {
				api.SetField("SpecFileHandler", sf())
			}
			for i := 0; i < api.Ptr.Elem().NumField(); i++ {
				f := api.Ptr.Elem().Field(i)
				name := api.Ptr.Elem().Type().Field(i).Name
				if strings.HasPrefix(name, "Security") && f.Kind() == reflect.Func {
					fn := func(r *http.Request, token string) (*http.Request, bool) { return r, token == "good" }
					if reflect.TypeOf(fn).ConvertibleTo(f.Type()) {
						f.Set(reflect.ValueOf(fn).Convert(f.Type()))
					}
				}
				if name == "CORSHandler" && f.Kind() == reflect.Func {
					f.Set(reflect.MakeFunc(f.Type(), func(args []reflect.Value) []reflect.Value {
						h := http.Handler(http.HandlerFunc(func(w http.ResponseWriter, r *http.Request) { w.WriteHeader(204) }))
						return []reflect.Value{reflect.ValueOf(&h).Elem()}
					}))
				}
			}
		}
		try := func(dim, method, path, query string, hdr http.Header, body io.ReadCloser, in string) {
			parsePanic = ""
			rec := NewRecorder()
			req := NewRequest(method, path, query, hdr, body)
			pn := Catch(func() { api.ServeHTTP(rec, req) })
			res.Count("requests", 1)
			res.Count("dim:"+dim, 1)
			bad := func(kind, observed string) {
				res.Violate(Violation{Attrs: map[string]string{"kind": kind, "dim": dim, "cfg": cfg, "where": panicWhere(observed)}, Input: in, Observed: observed, Expected: "no panic; exactly one response", Detail: map[string]any{"state": pl.State}})
			}
			if pn != "" {
				bad("panic-in-serve", pn)
				return
			}
			if parsePanic != "" {
				bad("panic-in-parse", parsePanic)
				return
			}
			if rec.WriteHeaders != 1 {
				bad("response-count", fmt.Sprintf("WriteHeader called %d times (status %d)", rec.WriteHeaders, rec.Status))
			}
		}
		mkHdr := func(op SinkOp) http.Header {
			h := http.Header{}
			for k, v := range op.Headers {
				h.Set(k, v)
			}
			return h
		}
		mkBody := func(s string, has bool) io.ReadCloser {
			if !has {
				return http.NoBody
			}
			return io.NopCloser(strings.NewReader(s))
		}
		methods := []string{"GET", "POST", "OPTIONS", "", "BREW", "PUT", "DELETE"}
		// (1) path sweep: every string up to PathLen over the alphabet, plus single-byte deletions and
		// doublings of every declared path; all methods
		pathSet := map[string]bool{}
		seqs(pl.PathAlpha, pl.PathLen, func(s string) { pathSet[s] = true })
		for _, op := range pl.Ops {
			for i := 0; i < len(op.Path); i++ {
				pathSet[op.Path[:i]+op.Path[i+1:]] = true
				pathSet[op.Path[:i]+op.Path[i:i+1]+op.Path[i:]] = true
			}
			pathSet[op.Path+"/"] = true
			pathSet[op.Path+"//x"] = true
		}
		for path := range pathSet {
			for _, m := range methods {
				var hdr http.Header
				body := io.ReadCloser(http.NoBody)
				if len(pl.Ops) > 0 {
					hdr = mkHdr(pl.Ops[0])
				}
				try("path", m, path, "", hdr, body, fmt.Sprintf("%q %q", m, path))
			}
		}
		qAlphaBase := []string{"x", "=", "&", "%", "%zz", ";", "+"}
		bodyAlpha := []string{"{", "}", "[", "]", ":", ",", `"a"`, `"z"`, "1", "null", `"x"`, "true"}
		for _, op := range pl.Ops {
			base := fmt.Sprintf("%s %s", op.Method, op.Path)
			// (2) method sweep on the valid request
			for _, m := range methods {
				try("method", m, op.Path, op.Query, mkHdr(op), mkBody(op.Body, op.HasBody), fmt.Sprintf("%q %s?%s", m, op.Path, op.Query))
			}
			// (3) query sweep
			qa := append([]string{}, qAlphaBase...)
			qa = append(qa, op.QNames...)
			seqs(qa, pl.QueryLen, func(q string) {
				try("query", op.Method, op.Path, q, mkHdr(op), mkBody(op.Body, op.HasBody), base+"?"+q)
			})
			// (4) header sweep: each declared header and each credential header absent / empty / twice / huge
			names := append(append([]string{}, op.HNames...), pl.Creds...)
			for _, hn := range names {
				for _, variant := range []string{"absent", "empty", "twice", "huge", "garbage", "scheme-only", "scheme-lower", "scheme-space", "spaces", "comma"} {
					h := mkHdr(op)
					switch variant {
					case "absent":
						h.Del(hn)
					case "empty":
						h.Set(hn, "")
					case "twice":
						h.Add(hn, h.Get(hn))
					case "huge":
						h.Set(hn, strings.Repeat("9", 64<<10))
					case "garbage":
						h.Set(hn, "\x00\xff {]")
					case "scheme-only":
						h.Set(hn, "Bearer")
					case "scheme-lower":
						h.Set(hn, "bearer")
					case "scheme-space":
						h.Set(hn, "Bearer ")
					case "spaces":
						h.Set(hn, "   ")
					case "comma":
						h.Set(hn, ",")
					}
					try("header", op.Method, op.Path, op.Query, h, mkBody(op.Body, op.HasBody), base+" "+hn+"="+variant)
				}
			}
			// (4b) protocol headers a client or proxy may add to any request (conditional requests, ranges,
			// content negotiation, CORS preflight fields, hop-by-hop), one at a time and as first/second request
			for _, ph := range [][2]string{{"If-None-Match", "*"}, {"If-None-Match", `"x", W/"y"`}, {"If-Match", "*"}, {"If-Modified-Since", "Mon, 02 Jan 2090 15:04:05 GMT"},
				{"If-Modified-Since", "garbage"}, {"If-Unmodified-Since", "Mon, 02 Jan 2006 15:04:05 GMT"}, {"If-Range", `"x"`}, {"Range", "bytes=0-0"}, {"Range", "bytes=9-1"}, {"Range", "x"},
				{"Accept", "*/*"}, {"Accept", "application/xml;q=0"}, {"Accept-Encoding", "gzip, br"}, {"Accept-Language", "de"}, {"Expect", "100-continue"}, {"Connection", "upgrade"},
				{"Upgrade", "websocket"}, {"Origin", "https://o.example"}, {"Access-Control-Request-Method", "GET"}, {"Access-Control-Request-Headers", "x-a, x-b"},
				{"Content-Type", "text/plain"}, {"Content-Type", ""}, {"Content-Type", "application/json; charset=latin1"}, {"Content-Length", "-1"}, {"Content-Length", "0"}, {"Content-Length", "1"}, {"Content-Length", "9223372036854775807"}, {"Transfer-Encoding", "chunked"},
				{"Cookie", "a=b; c"}, {"X-Forwarded-For", "1.2.3.4"}, {"X-HTTP-Method-Override", "DELETE"}, {"Host", ""}} {
				for rep := 0; rep < 2; rep++ {
					h := mkHdr(op)
					h.Set(ph[0], ph[1])
					try("protocol-header", op.Method, op.Path, op.Query, h, mkBody(op.Body, op.HasBody), fmt.Sprintf("%s %s: %s (request #%d)", base, ph[0], ph[1], rep+1))
				}
			}
			// credentials: every subset of credential headers removed / invalid (alternatives and conjunctions)
			for mask := 0; mask < 1<<len(pl.Creds); mask++ {
				for _, inval := range []bool{false, true} {
					h := mkHdr(op)
					for i, c := range pl.Creds {
						if mask&(1<<i) != 0 {
							if inval {
								h.Set(c, "bad")
							} else {
								h.Del(c)
							}
						}
					}
					try("creds", op.Method, op.Path, op.Query, h, mkBody(op.Body, op.HasBody), fmt.Sprintf("%s creds-mask=%d invalid=%v", base, mask, inval))
				}
			}
			// (5) body sweep
			if op.HasBody {
				seqs(bodyAlpha, pl.BodyLen, func(b string) {
					try("body", op.Method, op.Path, op.Query, mkHdr(op), mkBody(b, true), base+" body="+b)
				})
				for _, d := range op.Docs {
					try("body-doc", op.Method, op.Path, op.Query, mkHdr(op), mkBody(d, true), base+" body="+d)
				}
				try("body", op.Method, op.Path, op.Query, mkHdr(op), http.NoBody, base+" body=<NoBody>")
				try("body", op.Method, op.Path, op.Query, mkHdr(op), mkBody(strings.Repeat("[", 1<<20), true), base+" body=1MiB of [")
				try("body", op.Method, op.Path, op.Query, mkHdr(op), mkBody(strings.Repeat(`{"a":`, 100000), true), base+" body=deep objects")
				for n := 0; n <= 8 && n <= len(op.Body); n++ {
					try("body", op.Method, op.Path, op.Query, mkHdr(op), &errReader{data: []byte(op.Body), n: n}, fmt.Sprintf("%s body=reader failing at byte %d", base, n))
				}
				// pairs: body × query, body × method (reduced alphabets)
				seqs(bodyAlpha, min(3, pl.BodyLen), func(b string) {
					seqs(qa, min(2, pl.QueryLen), func(q string) {
						try("body×query", op.Method, op.Path, q, mkHdr(op), mkBody(b, true), base+"?"+q+" body="+b)
					})
				})
			}
			// pairs: path × query (reduced)
			seqs(pl.PathAlpha, min(4, pl.PathLen), func(pth string) {
				seqs(qa, min(2, pl.QueryLen), func(q string) {
					try("path×query", op.Method, pth, q, mkHdr(op), mkBody(op.Body, op.HasBody), fmt.Sprintf("%s %q?%s", op.Method, pth, q))
				})
			})
		}
	}
	res.Sample(map[string]any{"state": pl.State, "requests": res.Counters["requests"]})
}

// panicWhere extracts the innermost generated-code frame of a panic (function name) for classification.
func panicWhere(s string) string {
	for _, l := range strings.Split(s, "\n") {
		if i := strings.Index(l, "batch/gen/"); i >= 0 {
			l = l[i+len("batch/gen/"):]
			if j := strings.Index(l, "."); j >= 0 {
				l = l[j+1:]
			}
			if j := strings.Index(l, "("); j >= 0 && !strings.HasPrefix(l, "(") {
				l = l[:j]
			} else if j := strings.LastIndex(l, "("); j > 0 {
				l = l[:j]
			}
			return l
		}
	}
	return ""
}
