package drv

import (
	"context"
	"encoding/json"
	"fmt"
	"io"
	"net/http"
	"net/url"
	"reflect"
	"strings"

	"verif/refmodel"
	"verif/spec"
)

func init() { Handlers["C18"] = c18 }

// DiffPayload: two packages generated from specs that differ only in $ref vs inline; compared on a
// shared set of raw requests, JSON documents and response values.
type DiffPayload struct {
	State  string        `json:"state"`
	Mode   string        `json:"mode"` // params | json | body | response
	Params *ParamPayload `json:"params,omitempty"`
	Spec   *spec.Spec    `json:"spec,omitempty"` // view used to generate documents (variant A)
	Type   string        `json:"type,omitempty"`
	Schema *spec.Schema  `json:"schema,omitempty"` // document source when the schema is not the component `Type`
	BodyOp string        `json:"bodyOp,omitempty"`
	Resp   *RespPayload  `json:"resp,omitempty"`
}

type sideObs struct {
	ran     bool
	err     string
	params  any
	status  int
	headers string
	body    string
}

func c18(p *Pkg, p2 *Pkg, payload json.RawMessage, res *Result) {
	var pl DiffPayload
	if err := json.Unmarshal(payload, &pl); err != nil {
		res.Internal = err.Error()
		return
	}
	if p2 == nil {
		res.Internal = "C18 needs two packages"
		return
	}
	bad := func(kind, clause, in, observed, expected string) {
		res.Violate(Violation{Attrs: map[string]string{"kind": kind, "clause": clause, "mode": pl.Mode}, Input: in, Observed: observed, Expected: expected, Detail: map[string]any{"state": pl.State}})
	}
	switch pl.Mode {
	case "params":
		c18Params(p, p2, &pl, res, bad)
	case "json", "body":
		c18JSON(p, p2, &pl, res, bad)
	case "response":
		c18Response(p, p2, &pl, res, bad)
	case "cors":
		c18Cors(p, p2, &pl, res, bad)
	}
	res.Sample(map[string]any{"state": pl.State, "compared": res.Counters["compared"]})
}

// serveParams: one request against one package; what the handler parsed.
func serveParams(p *Pkg, method, path, rawQuery string, hdr http.Header, body string) (o sideObs, pn string) {
	api, err := NewAPI(p)
	if err != nil {
		return sideObs{err: "surface: " + err.Error()}, ""
	}
	for _, op := range api.Ops {
		resp := DefaultResponse(op)
		api.Install(op, func(op *Op, ctx context.Context, req reflect.Value) reflect.Value {
			o.ran = true
			params, perr := Parse(op, req)
			if perr != nil {
				o.err = perr.Error()
			} else {
				o.params = Abstract(params)
			}
			return resp
		})
	}
	rec := NewRecorder()
	var rb io.ReadCloser
	if body != "" {
		rb = io.NopCloser(strings.NewReader(body))
	}
	pn = Catch(func() { api.ServeHTTP(rec, NewRequest(method, path, rawQuery, hdr, rb)) })
	o.status = rec.Status
	return o, pn
}

func c18Params(p, p2 *Pkg, pl *DiffPayload, res *Result, bad func(kind, clause, in, observed, expected string)) {
	pp := pl.Params
	sups := make([][]supply, len(pp.Params))
	for i, pd := range pp.Params {
		sups[i] = supplies(pd)
	}
	idx := make([]int, len(pp.Params))
	for {
		q := url.Values{}
		h := http.Header{}
		path := pp.Path
		var desc []string
		for i, pd := range pp.Params {
			s := sups[i][idx[i]]
			desc = append(desc, fmt.Sprintf("%s=%q", pd.Name, s.values))
			for _, v := range s.values {
				switch pd.In {
				case "query":
					q.Add(pd.Name, v)
				case "header":
					h.Add(pd.Name, v)
				}
			}
			if pd.In == "path" {
				v := ""
				if len(s.values) > 0 {
					v = s.values[0]
				}
				path = strings.ReplaceAll(pp.Path, "{"+pd.Name+"}", v)
			}
		}
		in := pp.Method + " " + path + " " + strings.Join(desc, " ")
		if !strings.Contains(path, "//") || true {
			a, pa := serveParams(p, pp.Method, path, q.Encode(), h.Clone(), "")
			b, pb := serveParams(p2, pp.Method, path, q.Encode(), h.Clone(), "")
			res.Count("compared", 1)
			c18Compare(a, b, pa, pb, pp.Params, in, bad)
		}
		k := 0
		for k < len(idx) {
			idx[k]++
			if idx[k] < len(sups[k]) {
				break
			}
			idx[k] = 0
			k++
		}
		if k == len(idx) {
			break
		}
	}
}

func c18Compare(a, b sideObs, pa, pb string, params []ParamDecl, in string, bad func(kind, clause, in, observed, expected string)) {
	switch {
	case pa != "" || pb != "":
		if (pa != "") != (pb != "") {
			bad("differs", "panic", in, "A: "+firstN(pa, 200)+" | B: "+firstN(pb, 200), "same behaviour")
		}
	case a.ran != b.ran:
		bad("differs", "dispatch", in, fmt.Sprintf("A dispatched=%v (status %d), B dispatched=%v (status %d)", a.ran, a.status, b.ran, b.status), "the same requests are routed")
	case (a.err == "") != (b.err == ""):
		bad("differs", "accept-reject", in, fmt.Sprintf("A: %q | B: %q", a.err, b.err), "the same requests are accepted or rejected")
	case a.err != "":
		// the same parameter named on rejection
		for _, pd := range params {
			if strings.Contains(a.err, pd.Name) != strings.Contains(b.err, pd.Name) {
				bad("differs", "error-names", in, fmt.Sprintf("A: %q | B: %q", a.err, b.err), "the same parameter named")
			}
		}
	default:
		if !AbsEqual(a.params, b.params) {
			bad("differs", "values", in, fmt.Sprintf("A: %+v | B: %+v", a.params, b.params), "the same parsed values")
		}
	}
}

func c18JSON(p, p2 *Pkg, pl *DiffPayload, res *Result, bad func(kind, clause, in, observed, expected string)) {
	src := spec.RefTo(pl.Type)
	if pl.Schema != nil {
		src = pl.Schema
	}
	docs := refmodel.Docs(pl.Spec, src)
	ta, oka := p.Types[pl.Type]
	tb, okb := p2.Types[pl.Type]
	if pl.Mode == "json" && (!oka || !okb) {
		bad("differs", "surface", "", fmt.Sprintf("type %s present: A=%v B=%v", pl.Type, oka, okb), "")
		return
	}
	for _, d := range docs {
		res.Count("compared", 1)
		if pl.Mode == "body" {
			a, pa := serveParams(p, "POST", pl.BodyOp, "", http.Header{"Content-Type": {"application/json"}}, d.JSON)
			b, pb := serveParams(p2, "POST", pl.BodyOp, "", http.Header{"Content-Type": {"application/json"}}, d.JSON)
			if pa == "" && pb == "" && a.ran && b.ran && a.err == "" && b.err == "" {
				// compare the decoded bodies as JSON (Go types differ by name only)
				ja, _ := json.Marshal(a.params)
				jb, _ := json.Marshal(b.params)
				if string(ja) != string(jb) {
					bad("differs", "values", d.JSON, "A: "+firstN(string(ja), 200)+" | B: "+firstN(string(jb), 200), "the same decoded body")
				}
				continue
			}
			c18Compare(a, b, pa, pb, nil, d.JSON, bad)
			continue
		}
		dec := func(t reflect.Type) (string, string) {
			w := reflect.New(t)
			var err error
			if pn := Catch(func() { err = json.Unmarshal([]byte(d.JSON), w.Interface()) }); pn != "" {
				return "", "panic"
			}
			if err != nil {
				return "", "error"
			}
			out, merr := json.Marshal(w.Interface())
			if merr != nil {
				return "", "reencode-error"
			}
			return string(out), ""
		}
		oa, ea := dec(ta)
		ob, eb := dec(tb)
		switch {
		case ea != eb:
			bad("differs", "accept-reject", d.JSON, fmt.Sprintf("A: %s | B: %s", orOK(ea), orOK(eb)), "the same documents are accepted or rejected")
		case ea == "" && !jsonEqual([]byte(oa), []byte(ob)):
			bad("differs", "values", d.JSON, "A re-encodes "+firstN(oa, 200)+" | B re-encodes "+firstN(ob, 200), "equivalent JSON")
		}
	}
}

func orOK(s string) string {
	if s == "" {
		return "ok"
	}
	return s
}

// shapeSig: structural signature of a type (names erased), to align values of the two packages.
func shapeSig(t reflect.Type, depth int) string {
	if depth > 6 {
		return "…"
	}
	if t == tTime || (t.Kind() == reflect.Struct && t.ConvertibleTo(tTime)) {
		return "time"
	}
	switch t.Kind() {
	case reflect.Struct:
		var l []string
		for i := 0; i < t.NumField(); i++ {
			if t.Field(i).IsExported() {
				l = append(l, shapeSig(t.Field(i).Type, depth+1))
			}
		}
		return "{" + strings.Join(l, ",") + "}"
	case reflect.Slice:
		return "[]" + shapeSig(t.Elem(), depth+1)
	case reflect.Map:
		return "map" + shapeSig(t.Elem(), depth+1)
	case reflect.Ptr:
		return "*" + shapeSig(t.Elem(), depth+1)
	case reflect.Interface:
		return "iface"
	}
	return t.Kind().String()
}

func c18Response(p, p2 *Pkg, pl *DiffPayload, res *Result, bad func(kind, clause, in, observed, expected string)) {
	apiA, errA := NewAPI(p)
	apiB, errB := NewAPI(p2)
	if errA != nil || errB != nil {
		bad("differs", "surface", "", fmt.Sprint(errA, errB), "")
		return
	}
	for _, ro := range pl.Resp.Ops {
		opA, opB := apiA.Op(ro.Method, ro.Path), apiB.Op(ro.Method, ro.Path)
		if opA == nil || opB == nil {
			bad("differs", "surface", ro.Method+" "+ro.Path, fmt.Sprintf("operation present: A=%v B=%v", opA != nil, opB != nil), "")
			continue
		}
		// outputs per constructor: list of (status, headers, body) over the enumerated argument tuples
		outputs := func(pk *Pkg, api *API, op *Op) map[string][]string {
			out := map[string][]string{}
			var cur reflect.Value
			api.Install(op, func(op *Op, ctx context.Context, req reflect.Value) reflect.Value { return cur })
			for _, c := range op.Ctors {
				ft := c.Fn.Type()
				var sig []string
				for i := 0; i < ft.NumIn(); i++ {
					sig = append(sig, shapeSig(ft.In(i), 0))
				}
				key := strings.Join(sig, ";")
				for _, args := range ctorArgSets(pk, pl.Resp, c, []int{599, 418}, "raw") {
					for i := range args {
						if args[i].Kind() == reflect.Interface && args[i].IsNil() {
							a := reflect.New(args[i].Type()).Elem()
							a.Set(reflect.ValueOf(io.NopCloser(strings.NewReader("raw"))))
							args[i] = a
						}
					}
					var line string
					if pn := Catch(func() {
						cur = c.Fn.Call(args)[0]
						rec := NewRecorder()
						api.ServeHTTP(rec, NewRequest(ro.Method, ro.Path, "", nil, nil))
						var j any
						body := string(rec.Body)
						if json.Unmarshal(rec.Body, &j) == nil {
							nb, _ := json.Marshal(j)
							body = string(nb)
						}
						line = fmt.Sprintf("%d %v %s", rec.Status, rec.HeaderAtWH, body)
					}); pn != "" {
						line = "panic"
					}
					out[key] = append(out[key], line)
				}
			}
			return out
		}
		oa, ob := outputs(p, apiA, opA), outputs(p2, apiB, opB)
		for key, la := range oa {
			lb, ok := ob[key]
			if !ok {
				res.Count("incomparable-constructor", 1)
				continue
			}
			// several constructors may share a signature (a component and its alias): compare as sets
			sa, sb := map[string]bool{}, map[string]bool{}
			for _, l := range la {
				sa[l] = true
			}
			for _, l := range lb {
				sb[l] = true
			}
			res.Count("compared", int64(len(la)))
			for l := range sa {
				if !sb[l] {
					bad("differs", "wire-output", ro.Method+" "+ro.Path+" constructor args "+key, "A writes "+firstN(l, 300)+", B never does for the same response values", "the same status, headers and body for the same response value")
					break
				}
			}
			for l := range sb {
				if !sa[l] {
					bad("differs", "wire-output", ro.Method+" "+ro.Path+" constructor args "+key, "B writes "+firstN(l, 300)+", A never does for the same response values", "the same status, headers and body for the same response value")
					break
				}
			}
		}
	}
}

// c18Cors: the CORS preflight of the two variants advertises the same methods and headers.
func c18Cors(p, p2 *Pkg, pl *DiffPayload, res *Result, bad func(kind, clause, in, observed, expected string)) {
	probe := func(pk *Pkg) string {
		api, err := NewAPI(pk)
		if err != nil || !api.HasField("CORSHandler") {
			return "no-cors-handler-field"
		}
		out := "not-called"
		f := api.Ptr.Elem().FieldByName("CORSHandler")
		f.Set(reflect.MakeFunc(f.Type(), func(args []reflect.Value) []reflect.Value {
			var ms, hs []string
			for i := 0; i < args[0].Len(); i++ {
				ms = append(ms, args[0].Index(i).String())
			}
			for i := 0; i < args[1].Len(); i++ {
				hs = append(hs, args[1].Index(i).String())
			}
			out = "methods=" + strings.Join(sortedCopy(ms), ",") + " headers=" + strings.Join(sortedCopy(hs), ",")
			h := http.Handler(http.HandlerFunc(func(w http.ResponseWriter, r *http.Request) { w.WriteHeader(204) }))
			return []reflect.Value{reflect.ValueOf(&h).Elem()}
		}))
		Catch(func() { api.ServeHTTP(NewRecorder(), NewRequest("OPTIONS", pl.Params.Path, "", nil, nil)) })
		return out
	}
	a, b := probe(p), probe(p2)
	res.Count("compared", 1)
	if a != b {
		bad("differs", "cors-preflight", "OPTIONS "+pl.Params.Path, "A: "+a+" | B: "+b, "the same advertised methods and headers")
	}
}
