package drv

import (
	"bytes"
	"context"
	"encoding/json"
	"fmt"
	"io"
	"net/http"
	"reflect"
	"strings"
	"sync"

	"verif/vsched"
)

func init() { Handlers["C20"] = c20 }

// ConcPayload describes the concurrency scenarios to run against the (instrumented or plain) package.
type ConcPayload struct {
	State     string     `json:"state"`
	Mode      string     `json:"mode"`      // explore | free
	Scenarios [][]string `json:"scenarios"` // each: list of thread kinds: echo | raw | spec | badbody
	Bound     int        `json:"bound"`
	MaxExec   int64      `json:"maxExec"`
	EchoPath  string     `json:"echoPath"` // "/items/%s"
	RawPath   string     `json:"rawPath"`  // "/raw/%s"
	SpecPath  string     `json:"specPath"`
	FreeCalls int        `json:"freeCalls"`
}

var concMu sync.Mutex

type ctxMark struct{}

// harness state of one execution
type concWorld struct {
	p        *Pkg
	api      *API
	client   reflect.Value
	echoOp   *Op
	rawOp    *Op
	echoCall reflect.Value
	rawCall  reflect.Value
	mu       sync.Mutex // only used in free mode
	problems []string
	free     bool
}

func (w *concWorld) problem(format string, a ...any) {
	if w.free {
		w.mu.Lock()
		defer w.mu.Unlock()
	}
	if len(w.problems) < 10 {
		w.problems = append(w.problems, fmt.Sprintf(format, a...))
	}
}

type recorderRT struct{ w *concWorld }

func (r recorderRT) Do(req *http.Request) (*http.Response, error) {
	vsched.Yield("harness:client.Do")
	// the generated client has no notion of credentials: the transport adds the caller's bearer token
	if m, ok := req.Context().Value(ctxMark{}).(string); ok {
		req.Header.Set("Authorization", "Bearer tok-"+strings.TrimPrefix(m, "caller-"))
		req.Header.Set("X-Key", "key-"+strings.TrimPrefix(m, "caller-"))
	}
	rec := NewRecorder()
	r.w.api.ServeHTTP(rec, req)
	vsched.Yield("harness:client.Do.return")
	status := rec.Status
	if status == 0 {
		status = 200
	}
	return &http.Response{StatusCode: status, Header: rec.H.Clone(), Body: io.NopCloser(bytes.NewReader(append([]byte{}, rec.Body...))), Request: req}, nil
}

func setTagged(v reflect.Value, tag string, n int) {
	switch v.Kind() {
	case reflect.String:
		v.SetString(tag)
	case reflect.Int, reflect.Int32, reflect.Int64:
		v.SetInt(int64(n))
	case reflect.Slice:
		if v.Type().Elem().Kind() == reflect.String {
			s := reflect.MakeSlice(v.Type(), 2, 2)
			s.Index(0).SetString(tag + "-0")
			s.Index(1).SetString(tag + "-1")
			v.Set(s)
		}
	case reflect.Struct:
		if isWrapper(v.Type()) {
			v.Field(0).SetBool(true)
			setTagged(v.Field(1), tag, n)
			return
		}
		for i := 0; i < v.NumField(); i++ {
			if v.Type().Field(i).IsExported() {
				setTagged(v.Field(i), tag, n)
			}
		}
	}
}

func newConcWorld(p *Pkg, pl *ConcPayload, free bool) (*concWorld, error) {
	w := &concWorld{p: p, free: free}
	api, err := NewAPI(p)
	if err != nil {
		return nil, err
	}
	w.api = api
	for _, op := range api.Ops {
		switch {
		case op.Method == "POST" && strings.HasPrefix(pl.EchoPath, strings.SplitN(op.Path, "{", 2)[0]):
			w.echoOp = op
		case op.Method == "PUT":
			w.rawOp = op
		}
	}
	if w.echoOp == nil || w.rawOp == nil {
		return nil, SurfaceError("scenario operations not found in the generated API")
	}
	// echo handler: answers with what it parsed
	var echoOK, echoErr *Ctor
	for i := range w.echoOp.Ctors {
		c := &w.echoOp.Ctors[i]
		if strings.Contains(c.Name, "200") {
			echoOK = c
		} else if strings.Contains(c.Name, "Default") {
			echoErr = c
		}
	}
	if echoOK == nil || echoErr == nil {
		return nil, SurfaceError("echo response constructors not found")
	}
	api.Install(w.echoOp, func(op *Op, ctx context.Context, req reflect.Value) reflect.Value {
		vsched.Yield("harness:handler")
		params, err := Parse(op, req)
		if err != nil {
			return CallCtor(*echoErr, 400)
		}
		flat := fmt.Sprintf("%+v", Abstract(params))
		hr := req.MethodByName("HTTP").Call(nil)[0].Interface().(*http.Request)
		mark, _ := hr.Context().Value(ctxMark{}).(string)
		// every parsed value must carry one and the same request tag, and it must be the tag of the
		// credential the authenticator saw
		tag := ""
		for _, f := range strings.FieldsFunc(flat, func(r rune) bool {
			return !(r == '-' || r >= '0' && r <= '9' || r >= 'a' && r <= 'z' || r >= 'A' && r <= 'Z')
		}) {
			if strings.HasPrefix(f, "req") {
				t := strings.SplitN(f, "-", 2)[0]
				if tag == "" {
					tag = t
				} else if t != tag {
					w.problem("isolation: handler parsed values of two requests: %s", flat)
				}
			}
		}
		if mark != "tok-"+tag {
			w.problem("isolation: handler for %s received the authenticator's request of %q", tag, mark)
		}
		ft := echoOK.Fn.Type()
		args := make([]reflect.Value, ft.NumIn())
		for i := range args {
			a := reflect.New(ft.In(i)).Elem()
			setTagged(a, tag, 7)
			args[i] = a
		}
		vsched.Yield("harness:handler.return")
		return echoOK.Fn.Call(args)[0]
	})
	var rawOK *Ctor
	for i := range w.rawOp.Ctors {
		if strings.Contains(w.rawOp.Ctors[i].Name, "200") {
			rawOK = &w.rawOp.Ctors[i]
		}
	}
	if rawOK == nil {
		return nil, SurfaceError("raw response constructor not found")
	}
	api.Install(w.rawOp, func(op *Op, ctx context.Context, req reflect.Value) reflect.Value {
		vsched.Yield("harness:rawhandler")
		params, err := Parse(op, req)
		var body []byte
		if err == nil {
			if b := params.FieldByName("Body"); b.IsValid() && !b.IsNil() {
				body, _ = io.ReadAll(b.Interface().(io.Reader))
			}
		}
		hr := req.MethodByName("HTTP").Call(nil)[0].Interface().(*http.Request)
		if mark, _ := hr.Context().Value(ctxMark{}).(string); "raw-"+strings.TrimPrefix(mark, "key-") != string(body) {
			w.problem("isolation: raw handler with body %q received the authenticator's request of %q", body, mark)
		}
		ft := rawOK.Fn.Type()
		args := make([]reflect.Value, ft.NumIn())
		for i := range args {
			a := reflect.New(ft.In(i)).Elem()
			// a plain reader (no WriteTo), like an upstream response body or a pipe
			rc := io.NopCloser(plainReader{bytes.NewReader(body)})
			if reflect.TypeOf(rc).Implements(ft.In(i)) || ft.In(i).Kind() == reflect.Interface {
				a.Set(reflect.ValueOf(rc))
			}
			args[i] = a
		}
		return rawOK.Fn.Call(args)[0]
	})
	// middlewares: len 2, cap 4 (spare capacity exposes append-into-shared-backing-array bugs)
	mws := make([]func(http.Handler) http.Handler, 2, 4)
	for i := range mws {
		mws[i] = func(next http.Handler) http.Handler {
			return http.HandlerFunc(func(rw http.ResponseWriter, r *http.Request) {
				vsched.Yield("harness:middleware")
				next.ServeHTTP(rw, r)
			})
		}
	}
	api.SetField("Middlewares", mws)
	if f := api.Ptr.Elem().FieldByName("SecurityBearerAuth"); f.IsValid() {
		fn := func(r *http.Request, token string) (*http.Request, bool) {
			vsched.Yield("harness:auth")
			return r.WithContext(context.WithValue(r.Context(), ctxMark{}, token)), strings.HasPrefix(token, "tok-")
		}
		f.Set(reflect.ValueOf(fn).Convert(f.Type()))
	}
	for i := 0; i < api.Ptr.Elem().NumField(); i++ {
		f := api.Ptr.Elem().Field(i)
		if strings.HasPrefix(api.Ptr.Elem().Type().Field(i).Name, "SecurityAPIKeyAuth") && f.Kind() == reflect.Func {
			fn := func(r *http.Request, token string) (*http.Request, bool) {
				vsched.Yield("harness:keyauth")
				return r.WithContext(context.WithValue(r.Context(), ctxMark{}, token)), strings.HasPrefix(token, "key-")
			}
			f.Set(reflect.ValueOf(fn).Convert(f.Type()))
		}
	}
	if sf, ok := p.Funcs["SpecFileHandler"].(func() http.Handler); ok {
		api.SetField("SpecFileHandler", sf())
	}
	nc := reflect.ValueOf(p.Funcs["NewClient"])
	if !nc.IsValid() || nc.Type().NumIn() != 2 {
		return nil, SurfaceError("NewClient not found")
	}
	hc := reflect.New(nc.Type().In(1)).Elem()
	hc.Set(reflect.ValueOf(recorderRT{w}))
	w.client = nc.Call([]reflect.Value{reflect.ValueOf("http://h"), hc})[0]
	for i := 0; i < w.client.NumMethod(); i++ {
		m := w.client.Method(i)
		if m.Type().NumIn() == 2 {
			switch m.Type().In(1) {
			case w.echoOp.ParamsT:
				w.echoCall = m
			case w.rawOp.ParamsT:
				w.rawCall = m
			}
		}
	}
	if !w.echoCall.IsValid() || !w.rawCall.IsValid() {
		return nil, SurfaceError("client methods not found")
	}
	return w, nil
}

// thread bodies -----------------------------------------------------------------------------------

func (w *concWorld) echoThread(i int, bad bool) func() {
	return func() {
		tag := fmt.Sprintf("req%d", i)
		params := reflect.New(w.echoOp.ParamsT).Elem()
		setTagged(params, tag, i)
		ctx := context.WithValue(context.Background(), ctxMark{}, "caller-"+tag)
		// the bearer token travels in the Authorization header: the generated client has no field for it,
		// so the transport adds it from the context
		out := w.echoCall.Call([]reflect.Value{reflect.ValueOf(ctx), params})
		if !out[1].IsNil() {
			w.problem("caller %s: client returned error %v", tag, out[1].Interface())
			return
		}
		flat := fmt.Sprintf("%+v", Abstract(out[0]))
		if !strings.Contains(flat, tag) {
			w.problem("isolation: caller %s received a response without its tag: %s", tag, flat)
		}
		for j := 0; j < 8; j++ {
			if j != i && strings.Contains(flat, fmt.Sprintf("req%d", j)) {
				w.problem("isolation: caller %s received values of request req%d: %s", tag, j, flat)
			}
		}
	}
}

func (w *concWorld) rawThread(i int) func() {
	return func() {
		tag := fmt.Sprintf("req%d", i)
		params := reflect.New(w.rawOp.ParamsT).Elem()
		setTagged(params, tag, i)
		if b := params.FieldByName("Body"); b.IsValid() && b.Kind() == reflect.Interface {
			b.Set(reflect.ValueOf(io.NopCloser(strings.NewReader("raw-" + tag))))
		}
		ctx := context.WithValue(context.Background(), ctxMark{}, "caller-"+tag)
		out := w.rawCall.Call([]reflect.Value{reflect.ValueOf(ctx), params})
		if !out[1].IsNil() {
			w.problem("caller %s: raw client returned error %v", tag, out[1].Interface())
			return
		}
		rv := out[0]
		for rv.Kind() == reflect.Interface || rv.Kind() == reflect.Ptr {
			rv = rv.Elem()
		}
		var got []byte
		if rv.Kind() == reflect.Struct {
			if b := rv.FieldByName("Body"); b.IsValid() && b.Kind() == reflect.Interface && !b.IsNil() {
				got, _ = io.ReadAll(b.Interface().(io.Reader))
			}
		}
		if string(got) != "raw-"+tag {
			w.problem("isolation: raw caller %s received body %q", tag, got)
		}
	}
}

func (w *concWorld) specThread(path, want string) func() {
	return func() {
		rec := NewRecorder()
		vsched.Yield("harness:spec")
		w.api.ServeHTTP(rec, NewRequest("GET", path, "", nil, nil))
		if string(rec.Body) != want {
			w.problem("spec route served %d bytes, want %d", len(rec.Body), len(want))
		}
	}
}

// failing writer thread: the response write fails, which makes the generated code call LogError
type failWriter struct{ h http.Header }

func (f failWriter) Header() http.Header       { return f.h }
func (f failWriter) WriteHeader(int)           {}
func (f failWriter) Write([]byte) (int, error) { return 0, fmt.Errorf("injected write failure") }

func (w *concWorld) failThread(path string) func() {
	return func() {
		vsched.Yield("harness:failwriter")
		w.api.ServeHTTP(failWriter{http.Header{}}, NewRequest("GET", path, "", nil, nil))
	}
}

func (w *concWorld) bodies(pl *ConcPayload, kinds []string) []func() {
	var out []func()
	for i, k := range kinds {
		switch k {
		case "echo":
			out = append(out, w.echoThread(i, false))
		case "raw":
			out = append(out, w.rawThread(i))
		case "spec":
			out = append(out, w.specThread(pl.SpecPath, w.p.Consts["SpecFile"]))
		case "fail":
			out = append(out, w.failThread(pl.SpecPath))
		case "miss":
			i := i
			out = append(out, func() {
				vsched.Yield("harness:miss")
				rec := NewRecorder()
				w.api.ServeHTTP(rec, NewRequest("GET", fmt.Sprintf("/nowhere/%d", i), "", nil, nil))
				if rec.Status != 404 {
					w.problem("unrouted request answered %d", rec.Status)
				}
			})
		}
	}
	return out
}

func c20(p *Pkg, _ *Pkg, payload json.RawMessage, res *Result) {
	concMu.Lock()
	defer concMu.Unlock()
	var pl ConcPayload
	if err := json.Unmarshal(payload, &pl); err != nil {
		res.Internal = err.Error()
		return
	}
	// LogError is user-replaceable: install a quiet one (set once, before any thread runs)
	if le, ok := p.Vars["LogError"].(*func(error)); ok {
		*le = func(error) {}
	}
	if pl.Mode == "free" {
		c20Free(p, &pl, res)
		return
	}
	for si, kinds := range pl.Scenarios {
		var w *concWorld
		var werr error
		ex := &vsched.Explorer{Bound: pl.Bound, MaxExec: pl.MaxExec, Horizon: 200000}
		ex.Make = func() []func() {
			w, werr = newConcWorld(p, &pl, false)
			if werr != nil {
				return []func(){func() {}}
			}
			return w.bodies(&pl, kinds)
		}
		ex.Check = func(x *vsched.Execution) (string, string) {
			if werr != nil {
				return "surface: " + werr.Error(), "surface"
			}
			var v []string
			v = append(v, w.problems...)
			for _, r := range x.Races() {
				v = append(v, "race: "+r)
			}
			for _, pn := range x.Panics {
				v = append(v, "panic: "+pn)
			}
			if x.Livelock {
				v = append(v, "livelock: horizon exceeded")
			}
			// what the schedule made observable: completion order of the threads and how often control moved
			outcome := fmt.Sprintf("finished=%v switches=%d", x.Finished, x.Switches)
			if len(v) > 0 {
				return strings.Join(v, "\n"), "violation"
			}
			return "", outcome
		}
		seen := map[string]bool{}
		ex.OnViolation = func(x *vsched.Execution, viol string) {
			class := "isolation"
			switch {
			case strings.HasPrefix(viol, "race:"):
				class = "race"
			case strings.HasPrefix(viol, "panic:"):
				class = "panic"
			case strings.HasPrefix(viol, "surface:"):
				class = "surface"
			case strings.HasPrefix(viol, "nondeterministic"):
				class = "nondeterministic-harness"
			case strings.HasPrefix(viol, "livelock"):
				class = "livelock"
			}
			loc := ""
			if class == "race" {
				loc = strings.SplitN(strings.TrimPrefix(viol, "race: "), ":", 2)[0]
			}
			key := class + loc
			if seen[key] {
				return
			}
			seen[key] = true
			res.Violate(Violation{Attrs: map[string]string{"kind": class, "loc": loc, "scenario": strings.Join(kinds, "+")}, Input: fmt.Sprintf("schedule %v", x.Choices),
				Observed: firstN(viol, 600), Expected: "every handler sees exactly its own request, every caller its own response; no conflicting accesses to shared state",
				Detail: map[string]any{"scenario": kinds, "choices": x.Choices, "trace": x.Trace}})
		}
		st := ex.Explore()
		res.Count("executions", st.Executions)
		res.Count("decisions", st.Points)
		res.Count(fmt.Sprintf("scenario%d-executions", si), st.Executions)
		res.Count(fmt.Sprintf("scenario%d-maxpoints", si), int64(st.MaxPoints))
		res.Count(fmt.Sprintf("scenario%d-bound-completed", si), int64(st.BoundReached))
		res.Count(fmt.Sprintf("scenario%d-outcomes", si), int64(len(st.Outcomes)))
		if st.Capped {
			res.Count("capped", 1)
		}
		if st.BoundReached < pl.Bound {
			res.Count("bound-not-completed", 1)
		}
	}
	res.Sample(map[string]any{"state": pl.State, "executions": res.Counters["executions"], "decisions": res.Counters["decisions"]})
}

func firstN(s string, n int) string {
	if len(s) > n {
		return s[:n]
	}
	return s
}

// c20Free: the same bodies with real goroutines, uninstrumented; meaningful when built with -race.
func c20Free(p *Pkg, pl *ConcPayload, res *Result) {
	w, err := newConcWorld(p, pl, true)
	if err != nil {
		res.Violate(Violation{Attrs: map[string]string{"kind": "surface"}, Observed: err.Error()})
		return
	}
	var wg sync.WaitGroup
	n := pl.FreeCalls
	for round := 0; round < 20; round++ {
		for i := 0; i < n; i++ {
			wg.Add(1)
			var body func()
			switch i % 8 {
			case 0, 1, 2, 3, 4:
				body = w.echoThread(i%8, false)
			case 5:
				body = w.rawThread(i % 8)
			case 6:
				body = w.specThread(pl.SpecPath, p.Consts["SpecFile"])
			default:
				body = w.failThread(pl.SpecPath)
			}
			go func() {
				defer wg.Done()
				body()
			}()
		}
		wg.Wait()
		res.Count("free-calls", int64(n))
	}
	for _, pr := range w.problems {
		res.Violate(Violation{Attrs: map[string]string{"kind": "isolation-free-running"}, Observed: pr})
	}
}

// plainReader hides every optional interface of the wrapped reader (WriterTo, Seeker, ...).
type plainReader struct{ r io.Reader }

func (p plainReader) Read(b []byte) (int, error) { return p.r.Read(b) }
