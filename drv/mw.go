package drv

import (
	"context"
	"encoding/json"
	"fmt"
	"net/http"
	"reflect"
	"strings"

	"verif/refmodel"
)

func init() { Handlers["C16"] = c16 }

// c16: middlewares wrap exactly the routed operations, in declared order, outside the security check.
func c16(p *Pkg, _ *Pkg, payload json.RawMessage, res *Result) {
	var pl RoutePayload
	if err := json.Unmarshal(payload, &pl); err != nil {
		res.Internal = err.Error()
		return
	}
	schemaPath, _ := p.Funcs["SchemaPath"].(func(*http.Request) (string, bool))
	specHandler, _ := p.Funcs["SpecFileHandler"].(func() http.Handler)
	if schemaPath == nil || specHandler == nil {
		res.Violate(Violation{Attrs: map[string]string{"kind": "surface"}, Observed: "SchemaPath / SpecFileHandler missing"})
		return
	}
	for _, customNF := range []bool{true, false} {
		for _, n := range pl.Stacks {
			api, err := NewAPI(p)
			if err != nil {
				res.Violate(Violation{Attrs: map[string]string{"kind": "surface"}, Observed: err.Error()})
				return
			}
			var trace []string
			var ranOp *Op
			resp := map[*Op]reflect.Value{}
			for _, op := range api.Ops {
				resp[op] = DefaultResponse(op)
				api.Install(op, func(op *Op, ctx context.Context, req reflect.Value) reflect.Value {
					trace = append(trace, "handler")
					ranOp = op
					return resp[op]
				})
			}
			if customNF {
				api.SetField("NotFoundHandler", http.HandlerFunc(func(w http.ResponseWriter, r *http.Request) {
					trace = append(trace, "notfound")
					w.WriteHeader(418)
				}))
			}
			api.SetField("SpecFileHandler", http.HandlerFunc(func(w http.ResponseWriter, r *http.Request) {
				trace = append(trace, "specfile")
				w.WriteHeader(200)
			}))
			if api.HasField("CORSHandler") {
				f := api.Ptr.Elem().FieldByName("CORSHandler")
				f.Set(reflect.MakeFunc(f.Type(), func(args []reflect.Value) []reflect.Value {
					h := http.Handler(http.HandlerFunc(func(w http.ResponseWriter, r *http.Request) {
						trace = append(trace, "cors")
						w.WriteHeader(204)
					}))
					return []reflect.Value{reflect.ValueOf(&h).Elem()}
				}))
			}
			if api.HasField("SecurityBearerAuth") {
				f := api.Ptr.Elem().FieldByName("SecurityBearerAuth")
				fn := func(r *http.Request, token string) (*http.Request, bool) {
					trace = append(trace, "auth")
					return r, token == "good"
				}
				f.Set(reflect.ValueOf(fn).Convert(f.Type()))
			}
			// spare capacity behind the user's slice: the generated code must never write there (another API
			// value may share the backing array)
			mws := make([]func(http.Handler) http.Handler, 0, n+3)
			for i := 1; i <= n; i++ {
				i := i
				mws = append(mws, func(next http.Handler) http.Handler {
					return http.HandlerFunc(func(w http.ResponseWriter, r *http.Request) {
						sp, ok := schemaPath(r)
						trace = append(trace, fmt.Sprintf("enter %d %s %v", i, sp, ok))
						next.ServeHTTP(w, r)
						trace = append(trace, fmt.Sprintf("leave %d", i))
					})
				})
			}
			api.SetField("Middlewares", mws)
			serve := func(method, full, token string) (*Recorder, string) {
				trace, ranOp = nil, nil
				hdr := http.Header{}
				if token != "" {
					hdr.Set("Authorization", "Bearer "+token)
				}
				rec := NewRecorder()
				pn := Catch(func() { api.ServeHTTP(rec, NewRequest(method, full, "", hdr, nil)) })
				if pn == "" {
					for k, f := range mws[:cap(mws)][len(mws):] {
						if f != nil {
							pn = fmt.Sprintf("the generated code wrote into the spare capacity of the caller's Middlewares slice (slot %d beyond its length %d) while serving %s %s", k, len(mws), method, full)
							mws[:cap(mws)][len(mws)+k] = nil
						}
					}
				}
				return rec, pn
			}
			bad := func(kind, in, observed, expected string) {
				if kind == "panic" && strings.HasPrefix(observed, "the generated code wrote into the spare capacity") {
					kind, expected = "wrote-into-callers-slice", "the caller's slice is only read"
				}
				res.Violate(Violation{Attrs: map[string]string{"kind": kind, "stack": fmt.Sprint(n), "nf": fmt.Sprint(customNF), "base": pl.BaseName}, Input: in, Observed: observed, Expected: expected, Detail: pl})
			}
			// spec-file request: bypasses the middlewares entirely
			{
				full := pl.Base + "/" + pl.SpecName
				_, pn := serve("GET", full, "")
				res.Count("requests", 1)
				if pn != "" {
					bad("panic", "GET "+full, pn, "")
				} else if strings.Join(trace, ",") != "specfile" {
					bad("specfile-trace", "GET "+full, strings.Join(trace, ","), "specfile (no middleware entered)")
				}
			}
			for _, prefix := range pl.Prefixes {
				enumPaths(pl.Segs, pl.MaxDepth, func(path string) {
					full := prefix + path
					for _, method := range pl.Methods {
						for _, token := range []string{"", "good", "bad"} {
							in := fmt.Sprintf("%s %s token=%q", method, full, token)
							rec, pn := serve(method, full, token)
							res.Count("requests", 1)
							if pn != "" {
								bad("panic", in, pn, "")
								continue
							}
							tr := strings.Join(trace, ",")
							inner := []string{}
							for _, t := range trace {
								if !strings.HasPrefix(t, "enter") && !strings.HasPrefix(t, "leave") {
									inner = append(inner, t)
								}
							}
							is := strings.Join(inner, ",")
							mr := refmodel.Match(pl.Templates, pl.Base, full, method)
							routed := is == "handler" || is == "auth" || is == "auth,handler" || (is == "" && rec.Status == 401)
							switch {
							case routed:
								res.Count("routed", 1)
								// the template: what the handler reports; if it did not run (401), what the first
								// middleware saw, which must be a template the model allows for this request
								var tmpl string
								if ranOp != nil {
									tmpl = ranOp.Path
								} else if n > 0 && len(trace) > 0 {
									f := strings.Fields(trace[0])
									if len(f) >= 3 {
										tmpl = f[2]
									}
									ok := false
									for i := range pl.Templates {
										if mr.Allowed[i] && pl.Templates[i].Path == tmpl {
											ok = true
										}
									}
									if !ok {
										bad("template-seen", in, tr, "a template the request matches")
									}
								}
								var want []string
								for i := 1; i <= n; i++ {
									want = append(want, fmt.Sprintf("enter %d %s true", i, tmpl))
								}
								want = append(want, inner...)
								for i := n; i >= 1; i-- {
									want = append(want, fmt.Sprintf("leave %d", i))
								}
								if tr != strings.Join(want, ",") {
									bad("routed-trace", in, tr, strings.Join(want, ","))
								}
							case is == "notfound" || is == "":
								res.Count("unrouted", 1)
								if tr != is {
									bad("unrouted-trace", in, tr, "no middleware entered for a request that matches no operation")
								}
							case is == "cors":
								// a preflight matches no operation: like every unrouted request it bypasses the middlewares
								res.Count("cors", 1)
								if tr != "cors" {
									bad("cors-trace", in, tr, "the CORS preflight bypasses the middlewares (it matches no operation)")
								}
							default:
								bad("odd-trace", in, tr, "")
							}
						}
					}
				})
			}
		}
	}
	res.Sample(map[string]any{"state": pl.State, "requests": res.Counters["requests"], "routed": res.Counters["routed"], "unrouted": res.Counters["unrouted"]})
}
