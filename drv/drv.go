// Package drv is the generic reflection driver linked, together with many generated packages and
// their registry files, into one batch binary. It contains no spec-specific code: it finds the
// API type, handler fields, request/response types and constructors of a generated package through
// the registry and reflect, installs recording handlers, and runs a property's whole input alphabet
// against the package, comparing with the reference models on every input.
package drv

import (
	"bufio"
	"context"
	"encoding/json"
	"errors"
	"fmt"
	"io"
	"net/http"
	"net/url"
	"os"
	"reflect"
	"runtime"
	"runtime/debug"
	"sort"
	"strconv"
	"strings"
	"sync"
)

type Pkg struct {
	Name   string
	Funcs  map[string]any
	Types  map[string]reflect.Type
	Vars   map[string]any
	Consts map[string]string
}

var (
	regMu sync.Mutex
	pkgs  = map[string]*Pkg{}
)

func Register(p *Pkg) {
	regMu.Lock()
	pkgs[p.Name] = p
	regMu.Unlock()
}

// Job: one (package, property) unit of work. Payload is property-specific (usually the spec view).
type Job struct {
	ID      string          `json:"id"`
	Pkg     string          `json:"pkg"`
	Pkg2    string          `json:"pkg2,omitempty"` // second package for differential properties
	Prop    string          `json:"prop"`
	Payload json.RawMessage `json:"payload"`
}

type Violation struct {
	Attrs    map[string]string `json:"attrs"`
	Input    string            `json:"input"`
	Observed string            `json:"observed"`
	Expected string            `json:"expected"`
	Detail   any               `json:"detail,omitempty"`
}

type Result struct {
	ID         string           `json:"id"`
	Counters   map[string]int64 `json:"counters"`
	Violations []Violation      `json:"violations,omitempty"`
	NViol      int64            `json:"nviol"`
	Samples    []any            `json:"samples,omitempty"`
	Internal   string           `json:"internal,omitempty"` // harness fault (not a violation)
}

func (r *Result) Count(k string, n int64) {
	if r.Counters == nil {
		r.Counters = map[string]int64{}
	}
	r.Counters[k] += n
}

// Violate records a violation; at most 3 per attribute class are kept (all are counted).
func (r *Result) Violate(v Violation) {
	r.NViol++
	key := attrKey(v.Attrs)
	r.Count("viol:"+key, 1)
	if r.Counters["viol:"+key] <= 2 && len(r.Violations) < 60 {
		r.Violations = append(r.Violations, v)
	}
}

func (r *Result) Sample(s any) {
	if len(r.Samples) < 3 {
		r.Samples = append(r.Samples, s)
	}
}

func attrKey(a map[string]string) string {
	ks := make([]string, 0, len(a))
	for k := range a {
		ks = append(ks, k)
	}
	sort.Strings(ks)
	var b strings.Builder
	for _, k := range ks {
		fmt.Fprintf(&b, "%s=%s;", k, a[k])
	}
	return b.String()
}

type Handler func(p *Pkg, p2 *Pkg, payload json.RawMessage, res *Result)

var Handlers = map[string]Handler{}

// Main: drv <jobs.jsonl> <results.jsonl>
func Main() {
	if len(os.Args) < 3 {
		fmt.Fprintln(os.Stderr, "usage: batch <jobs> <results>")
		os.Exit(2)
	}
	jf, err := os.Open(os.Args[1])
	if err != nil {
		fmt.Fprintln(os.Stderr, err)
		os.Exit(2)
	}
	var jobs []Job
	sc := bufio.NewScanner(jf)
	sc.Buffer(make([]byte, 1<<20), 64<<20)
	for sc.Scan() {
		var j Job
		if err := json.Unmarshal(sc.Bytes(), &j); err != nil {
			fmt.Fprintln(os.Stderr, "bad job:", err)
			os.Exit(2)
		}
		jobs = append(jobs, j)
	}
	jf.Close()
	out, err := os.Create(os.Args[2])
	if err != nil {
		fmt.Fprintln(os.Stderr, err)
		os.Exit(2)
	}
	w := bufio.NewWriter(out)
	var mu sync.Mutex
	ch := make(chan int, len(jobs))
	for i := range jobs {
		ch <- i
	}
	close(ch)
	var wg sync.WaitGroup
	for k := 0; k < runtime.GOMAXPROCS(0); k++ {
		wg.Add(1)
		go func() {
			defer wg.Done()
			for i := range ch {
				r := runJob(&jobs[i])
				bs, _ := json.Marshal(r)
				mu.Lock()
				w.Write(bs)
				w.WriteByte('\n')
				mu.Unlock()
			}
		}()
	}
	wg.Wait()
	w.Flush()
	out.Close()
}

func runJob(j *Job) (res *Result) {
	res = &Result{ID: j.ID, Counters: map[string]int64{}}
	defer func() {
		if p := recover(); p != nil {
			res.Internal = fmt.Sprintf("driver panic: %v\n%s", p, debug.Stack())
		}
	}()
	h, ok := Handlers[j.Prop]
	if !ok {
		res.Internal = "no handler for " + j.Prop
		return
	}
	p := pkgs[j.Pkg]
	if p == nil {
		res.Internal = "package not linked: " + j.Pkg
		return
	}
	var p2 *Pkg
	if j.Pkg2 != "" {
		p2 = pkgs[j.Pkg2]
		if p2 == nil {
			res.Internal = "package not linked: " + j.Pkg2
			return
		}
	}
	h(p, p2, j.Payload, res)
	return
}

// ---- API handle ---------------------------------------------------------------------------------

// Op is one operation of a generated package, found structurally.
type Op struct {
	Field    string // API field name
	Index    int
	Path     string // template as reported by the handler type's Path()
	Method   string
	FuncType reflect.Type // <Op>HandlerFunc
	ReqType  reflect.Type // <Op>Request interface
	RespType reflect.Type // <Op>Response interface
	Ctors    []Ctor       // constructors returning RespType
	ParamsT  reflect.Type // <Op>Params struct (result of Parse)
	ParseErr bool         // Parse returns (params, error)
}

type Ctor struct {
	Name string
	Fn   reflect.Value
}

type API struct {
	Pkg   *Pkg
	Ptr   reflect.Value // *API
	Ops   []*Op
	byKey map[string]*Op
}

// Surface error: something users' code relies on is missing from the generated package.
type SurfaceError string

func (e SurfaceError) Error() string { return string(e) }

var (
	tHTTPHandler = reflect.TypeOf((*http.Handler)(nil)).Elem()
	tError       = reflect.TypeOf((*error)(nil)).Elem()
	tCtx         = reflect.TypeOf((*context.Context)(nil)).Elem()
)

// NewAPI allocates a fresh API value and discovers its operations.
func NewAPI(p *Pkg) (*API, error) {
	t, ok := p.Types["API"]
	if !ok || t.Kind() != reflect.Struct {
		return nil, SurfaceError("no API struct type")
	}
	a := &API{Pkg: p, Ptr: reflect.New(t), byKey: map[string]*Op{}}
	if !a.Ptr.Type().Implements(tHTTPHandler) {
		return nil, SurfaceError("*API does not implement http.Handler")
	}
	for i := 0; i < t.NumField(); i++ {
		f := t.Field(i)
		ft := f.Type
		if ft.Kind() != reflect.Func || ft.NumIn() != 2 || ft.NumOut() != 1 || !ft.In(0).Implements(tCtx) {
			continue
		}
		pm, ok1 := ft.MethodByName("Path")
		mm, ok2 := ft.MethodByName("Method")
		if !ok1 || !ok2 {
			continue
		}
		zero := reflect.Zero(ft)
		op := &Op{Field: f.Name, Index: i, FuncType: ft, ReqType: ft.In(1), RespType: ft.Out(0)}
		op.Path = pm.Func.Call([]reflect.Value{zero})[0].String()
		op.Method = mm.Func.Call([]reflect.Value{zero})[0].String()
		if pr, ok := op.ReqType.MethodByName("Parse"); ok {
			op.ParamsT = pr.Type.Out(0)
			op.ParseErr = pr.Type.NumOut() == 2
		} else {
			return nil, SurfaceError("request type of " + f.Name + " has no Parse()")
		}
		a.Ops = append(a.Ops, op)
		a.byKey[op.Method+" "+op.Path] = op
	}
	// constructors
	names := make([]string, 0, len(p.Funcs))
	for n := range p.Funcs {
		names = append(names, n)
	}
	sort.Strings(names)
	for _, n := range names {
		fv := reflect.ValueOf(p.Funcs[n])
		if fv.Kind() != reflect.Func || fv.Type().NumOut() != 1 {
			continue
		}
		if !strings.HasPrefix(n, "New") {
			continue
		}
		for _, op := range a.Ops {
			// a constructor returns the operation's response interface, or (shared component responses) a
			// concrete type that implements it
			ot := fv.Type().Out(0)
			if ot == op.RespType || (ot.Kind() != reflect.Interface && ot.Implements(op.RespType)) {
				op.Ctors = append(op.Ctors, Ctor{n, fv})
			}
		}
	}
	return a, nil
}

func (a *API) Op(method, path string) *Op { return a.byKey[method+" "+path] }

// HandlerFn is what the harness runs inside an operation handler.
type HandlerFn func(op *Op, ctx context.Context, req reflect.Value) reflect.Value

// Install sets the handler of op.
func (a *API) Install(op *Op, fn HandlerFn) {
	f := reflect.MakeFunc(op.FuncType, func(args []reflect.Value) []reflect.Value {
		ctx, _ := args[0].Interface().(context.Context)
		return []reflect.Value{fn(op, ctx, args[1])}
	})
	a.Ptr.Elem().Field(op.Index).Set(f)
}

func (a *API) SetField(name string, v any) bool {
	f := a.Ptr.Elem().FieldByName(name)
	if !f.IsValid() {
		return false
	}
	rv := reflect.ValueOf(v)
	if v == nil {
		f.Set(reflect.Zero(f.Type()))
		return true
	}
	if rv.Type().ConvertibleTo(f.Type()) {
		f.Set(rv.Convert(f.Type()))
		return true
	}
	return false
}

func (a *API) HasField(name string) bool { return a.Ptr.Elem().FieldByName(name).IsValid() }

func (a *API) ServeHTTP(w http.ResponseWriter, r *http.Request) {
	a.Ptr.Interface().(http.Handler).ServeHTTP(w, r)
}

// Parse calls req.Parse() and returns the params value and the error (nil if Parse cannot fail).
func Parse(op *Op, req reflect.Value) (reflect.Value, error) {
	out := req.MethodByName("Parse").Call(nil)
	if len(out) == 2 && !out[1].IsNil() {
		return out[0], out[1].Interface().(error)
	}
	return out[0], nil
}

// DefaultResponse builds some response value of the operation: the first constructor, called with
// zero arguments (status code 200 for integer `code`, empty readers for io.Reader arguments).
func DefaultResponse(op *Op) reflect.Value {
	if len(op.Ctors) == 0 {
		return reflect.Zero(op.RespType)
	}
	return CallCtor(op.Ctors[0], 200)
}

var tReader = reflect.TypeOf((*io.Reader)(nil)).Elem()

func CallCtor(c Ctor, code int) reflect.Value {
	ft := c.Fn.Type()
	args := make([]reflect.Value, ft.NumIn())
	for i := range args {
		it := ft.In(i)
		switch {
		case it.Kind() == reflect.Int && i == 0:
			args[i] = reflect.ValueOf(code).Convert(it)
		case it.Kind() == reflect.Interface && reflect.TypeOf(io.NopCloser(strings.NewReader(""))).Implements(it):
			args[i] = reflect.ValueOf(io.NopCloser(strings.NewReader(""))).Convert(it)
		default:
			args[i] = reflect.Zero(it)
		}
	}
	return c.Fn.Call(args)[0]
}

// ---- requests and recording ---------------------------------------------------------------------

// Recorder is a ResponseWriter that records how it was used.
type Recorder struct {
	H            http.Header
	Status       int
	WriteHeaders int
	Body         []byte
	HeaderAtWH   http.Header
}

func NewRecorder() *Recorder { return &Recorder{H: http.Header{}} }

func (r *Recorder) Header() http.Header { return r.H }
func (r *Recorder) WriteHeader(code int) {
	r.WriteHeaders++
	if r.WriteHeaders == 1 {
		r.Status = code
		r.HeaderAtWH = r.H.Clone()
	}
}
func (r *Recorder) Write(b []byte) (int, error) {
	if r.WriteHeaders == 0 {
		r.WriteHeader(200)
	}
	r.Body = append(r.Body, b...)
	return len(b), nil
}

// NewRequest builds the request a net/http server would deliver for the given target, with
// URL.Path set directly (no cleaning).
func NewRequest(method, path, rawQuery string, hdr http.Header, body io.ReadCloser) *http.Request {
	if body == nil {
		body = http.NoBody
	}
	if hdr == nil {
		hdr = http.Header{}
	}
	r := &http.Request{Method: method, URL: &url.URL{Path: path, RawQuery: rawQuery}, Proto: "HTTP/1.1", ProtoMajor: 1, ProtoMinor: 1,
		Header: hdr, Body: body, Host: "example.com", RequestURI: path}
	// ContentLength as a server (or a direct caller streaming a body) would set it: the header's value,
	// -1 for a chunked or otherwise unknown length, 0 without a body
	switch {
	case strings.Contains(strings.ToLower(hdr.Get("Transfer-Encoding")), "chunked"):
		r.ContentLength = -1
	case hdr.Get("Content-Length") != "":
		if n, err := strconv.ParseInt(strings.TrimSpace(hdr.Get("Content-Length")), 10, 64); err == nil {
			r.ContentLength = n
		}
	case body != http.NoBody:
		r.ContentLength = -1
	}
	return r.WithContext(context.Background())
}

// Catch runs f and converts a panic into a string.
func Catch(f func()) (panicked string) {
	defer func() {
		if p := recover(); p != nil {
			panicked = fmt.Sprintf("%v\n%s", p, trimStack(string(debug.Stack())))
		}
	}()
	f()
	return ""
}

func trimStack(s string) string {
	if len(s) > 2500 {
		return s[:2500]
	}
	return s
}

// ErrNames: does the error identify `name`? Either a value on the error chain has a string field
// Parameter (or Property / Field) equal to the name, or the name occurs in the message as a token of
// its own - not as part of a longer word and not inside a path template's braces ("{name}").
func ErrNames(err error, name string) bool {
	if err == nil || name == "" {
		return false
	}
	for e := err; e != nil; e = errors.Unwrap(e) {
		v := reflect.ValueOf(e)
		for v.Kind() == reflect.Ptr && !v.IsNil() {
			v = v.Elem()
		}
		if v.Kind() == reflect.Struct {
			for _, fn := range []string{"Parameter", "Property", "Field"} {
				if f := v.FieldByName(fn); f.IsValid() && f.Kind() == reflect.String && strings.EqualFold(f.String(), name) {
					return true
				}
			}
		}
	}
	msg := strings.ToLower(err.Error())
	n := strings.ToLower(name)
	isWord := func(b byte) bool {
		return b == '_' || b >= '0' && b <= '9' || b >= 'a' && b <= 'z' || b >= 0x80
	}
	for from := 0; ; {
		i := strings.Index(msg[from:], n)
		if i < 0 {
			return false
		}
		i += from
		j := i + len(n)
		leftOK := i == 0 || !isWord(msg[i-1]) && msg[i-1] != '{'
		rightOK := j == len(msg) || !isWord(msg[j]) && msg[j] != '}'
		// a name that itself starts/ends with a non-word byte needs no boundary on that side
		if !isWord(n[0]) {
			leftOK = true
		}
		if !isWord(n[len(n)-1]) {
			rightOK = true
		}
		if leftOK && rightOK {
			return true
		}
		from = i + 1
	}
}

// InstallAcceptAll sets every Security* authenticator field of the API to one that accepts any
// credential and records the token it was given (field name -> tokens seen, in order).
func (a *API) InstallAcceptAll(seen map[string][]string) {
	v := a.Ptr.Elem()
	t := v.Type()
	for i := 0; i < t.NumField(); i++ {
		f := t.Field(i)
		if !strings.HasPrefix(f.Name, "Security") || !f.IsExported() {
			continue
		}
		name := f.Name
		fn := func(r *http.Request, token string) (*http.Request, bool) {
			seen[name] = append(seen[name], token)
			return r, true
		}
		fv := reflect.ValueOf(fn)
		if fv.Type().ConvertibleTo(f.Type) {
			v.Field(i).Set(fv.Convert(f.Type))
		}
	}
}
