package drv

import (
	"encoding/json"
	"fmt"
	"math"
	"reflect"
	"sort"
	"strings"
	"time"
)

// Value-space exploration of generated Go types (C06/C07): the space of values of a type is
// enumerated from the type itself, by reflection, over small leaf domains.

var (
	tRaw = reflect.TypeOf(json.RawMessage{})
	tAny = reflect.TypeOf((*any)(nil)).Elem()
)

type valEnum struct {
	p      *Pkg
	cap    int
	capHit bool
	// discriminated oneOf of the state (at most one per state): property name and, per variant index,
	// the discriminator values that select it. Values whose discriminator does not select the chosen
	// variant are outside the schema's value space.
	discProp    string
	variantKeys [][]string
	// variantOrder: normalised Go field name of a oneOf alternative -> its position in the document
	variantOrder map[string]int
	// parameter groups (C09): the string domain of the location, and no empty arrays (§11)
	strings          []string
	requiredNonEmpty bool
}

func leafDomain(t reflect.Type) []reflect.Value {
	mk := func(vs ...any) []reflect.Value {
		out := make([]reflect.Value, len(vs))
		for i, v := range vs {
			out[i] = reflect.ValueOf(v).Convert(t)
		}
		return out
	}
	switch t.Kind() {
	case reflect.Bool:
		return mk(false, true)
	case reflect.Int32:
		return mk(int32(0), int32(1), int32(-1), int32(math.MinInt32), int32(math.MaxInt32))
	case reflect.Int, reflect.Int64:
		return mk(int64(0), int64(1), int64(-1), int64(math.MinInt64), int64(math.MaxInt64), int64(9007199254740993))
	case reflect.Int8, reflect.Int16:
		return mk(int64(0), int64(1), int64(-1))
	case reflect.Float32:
		return mk(float32(0), float32(1.5), float32(-2.5e-7), float32(math.MaxFloat32), float32(math.SmallestNonzeroFloat32), float32(16777216))
	case reflect.Float64:
		return mk(float64(0), 1.5, -2.5e-7, math.MaxFloat64, math.SmallestNonzeroFloat64, 0.1, float64(100))
	case reflect.String:
		return mk("", "a", `"`, `\`, "<&>", " ", "é", "\x00", "line\nbreak")
	}
	return nil
}

var timeDomain = []time.Time{
	time.Date(2020, 1, 2, 3, 4, 5, 0, time.UTC),
	time.Date(2020, 1, 2, 3, 4, 5, 123456789, time.FixedZone("", 2*3600)),
	time.Date(1, 1, 1, 0, 0, 0, 0, time.UTC),
}

// isOneOf: a struct whose fields are all Maybe wrappers and for each of which the package has a
// constructor New<Type><Field>.
func (e *valEnum) isOneOf(t reflect.Type) bool {
	if t.Kind() != reflect.Struct || t.NumField() < 1 || t.Name() == "" {
		return false
	}
	for i := 0; i < t.NumField(); i++ {
		if !isWrapper(t.Field(i).Type) {
			return false
		}
		if _, ok := e.p.Funcs["New"+t.Name()+t.Field(i).Name]; !ok {
			return false
		}
	}
	return true
}

// Enum returns values of t; the first is the zero-most value.
func (e *valEnum) Enum(t reflect.Type, depth int) []reflect.Value {
	if t == tTime || (t.Kind() == reflect.Struct && t.ConvertibleTo(tTime)) {
		var out []reflect.Value
		for _, tm := range timeDomain {
			out = append(out, reflect.ValueOf(tm).Convert(t))
		}
		return out
	}
	if t == tRaw || (t.Kind() == reflect.Slice && t.Elem().Kind() == reflect.Uint8) {
		var out []reflect.Value
		for _, s := range []string{`1`, `"s"`, `null`, `{"k":[1]}`} {
			out = append(out, reflect.ValueOf(json.RawMessage(s)).Convert(t))
		}
		return out
	}
	if t.Kind() == reflect.String && e.strings != nil {
		var out []reflect.Value
		for _, x := range e.strings {
			out = append(out, reflect.ValueOf(x).Convert(t))
		}
		return out
	}
	if l := leafDomain(t); l != nil {
		return l
	}
	if depth > 5 {
		return []reflect.Value{reflect.Zero(t)}
	}
	switch t.Kind() {
	case reflect.Interface:
		var out []reflect.Value
		for _, v := range []any{float64(1), "s", map[string]any{"k": []any{float64(1)}}, []any{"x"}, true} {
			x := reflect.New(t).Elem()
			x.Set(reflect.ValueOf(v))
			out = append(out, x)
		}
		out = append(out, reflect.Zero(t)) // nil
		return out
	case reflect.Ptr:
		out := []reflect.Value{reflect.Zero(t)}
		for _, v := range e.Enum(t.Elem(), depth+1) {
			p := reflect.New(t.Elem())
			p.Elem().Set(v)
			out = append(out, p)
		}
		return out
	case reflect.Slice:
		ev := e.Enum(t.Elem(), depth+1)
		out := []reflect.Value{reflect.Zero(t), reflect.MakeSlice(t, 0, 0)}
		if e.requiredNonEmpty {
			out = nil
		}
		for i, v := range ev {
			if i >= 6 {
				break
			}
			s := reflect.MakeSlice(t, 1, 1)
			s.Index(0).Set(v)
			out = append(out, s)
		}
		if len(ev) >= 2 {
			s := reflect.MakeSlice(t, 2, 2)
			s.Index(0).Set(ev[len(ev)-1])
			s.Index(1).Set(ev[0])
			out = append(out, s)
			s2 := reflect.MakeSlice(t, 2, 2)
			s2.Index(0).Set(ev[1])
			s2.Index(1).Set(ev[0])
			out = append(out, s2)
		}
		return out
	case reflect.Map:
		ev := e.Enum(t.Elem(), depth+1)
		out := []reflect.Value{reflect.Zero(t)}
		keys := []string{"k", "a b", `q"uote`, `back\slash`, "é"}
		for i, k := range keys {
			m := reflect.MakeMap(t)
			m.SetMapIndex(reflect.ValueOf(k).Convert(t.Key()), ev[i%len(ev)])
			out = append(out, m)
		}
		m := reflect.MakeMap(t)
		m.SetMapIndex(reflect.ValueOf("k").Convert(t.Key()), ev[0])
		m.SetMapIndex(reflect.ValueOf("k2").Convert(t.Key()), ev[len(ev)-1])
		out = append(out, m)
		return out
	case reflect.Struct:
		if isWrapper(t) {
			out := []reflect.Value{reflect.Zero(t)}
			for _, v := range e.Enum(t.Field(1).Type, depth+1) {
				w := reflect.New(t).Elem()
				w.Field(0).SetBool(true)
				w.Field(1).Set(v)
				out = append(out, w)
			}
			return out
		}
		if e.isOneOf(t) {
			var out []reflect.Value
			for i := 0; i < t.NumField(); i++ {
				for _, v := range e.Enum(t.Field(i).Type, depth+1) {
					if !v.Field(0).Bool() {
						continue // exactly one variant chosen
					}
					if e.discProp != "" && i < len(e.variantKeys) {
						inner := v.Field(1)
						df, ok := FieldFor(inner, e.discProp)
						if ok && df.Kind() == reflect.String {
							if df.String() != "a" {
								continue // one copy per discriminator key, made from the "a" representative
							}
							for _, key := range e.variantKeys[i] {
								c := reflect.New(v.Type()).Elem()
								c.Set(v)
								cf, _ := FieldFor(c.Field(1), e.discProp)
								cf.SetString(key)
								w := reflect.New(t).Elem()
								w.Field(i).Set(c)
								out = append(out, w)
							}
							continue
						}
					}
					w := reflect.New(t).Elem()
					w.Field(i).Set(v)
					out = append(out, w)
				}
			}
			return out
		}
		return e.enumStruct(t, depth)
	}
	return []reflect.Value{reflect.Zero(t)}
}

func (e *valEnum) enumStruct(t reflect.Type, depth int) []reflect.Value {
	n := t.NumField()
	doms := make([][]reflect.Value, n)
	total := 1
	for i := 0; i < n; i++ {
		if !t.Field(i).IsExported() {
			doms[i] = []reflect.Value{reflect.Zero(t.Field(i).Type)}
			continue
		}
		doms[i] = e.Enum(t.Field(i).Type, depth+1)
		if total <= e.cap {
			total *= len(doms[i])
		}
	}
	build := func(idx []int) reflect.Value {
		v := reflect.New(t).Elem()
		for i := 0; i < n; i++ {
			if t.Field(i).IsExported() {
				v.Field(i).Set(doms[i][idx[i]])
			}
		}
		return v
	}
	var out []reflect.Value
	if total <= e.cap && depth == 0 || total <= 40 {
		idx := make([]int, n)
		for {
			out = append(out, build(idx))
			k := 0
			for k < n {
				idx[k]++
				if idx[k] < len(doms[k]) {
					break
				}
				idx[k] = 0
				k++
			}
			if k == n {
				break
			}
		}
		return out
	}
	if depth == 0 {
		e.capHit = true
	}
	// all values within 2 moves of the base plus all single-field sweeps; two bases: zero-most and
	// "everything set" (index 1 where the domain has one)
	seen := map[string]bool{}
	add := func(idx []int) {
		k := fmt.Sprint(idx)
		if !seen[k] {
			seen[k] = true
			out = append(out, build(idx))
		}
	}
	bases := [][]int{make([]int, n), make([]int, n)}
	for i := 0; i < n; i++ {
		if len(doms[i]) > 1 {
			bases[1][i] = 1
		}
	}
	for _, base := range bases {
		add(append([]int{}, base...))
		for i := 0; i < n; i++ {
			for a := 0; a < len(doms[i]); a++ {
				idx := append([]int{}, base...)
				idx[i] = a
				add(idx)
				if depth > 0 {
					continue
				}
				for j := i + 1; j < n; j++ {
					for b := 0; b < len(doms[j]) && b < 3; b++ {
						idx2 := append([]int{}, idx...)
						idx2[j] = b
						add(idx2)
					}
				}
			}
		}
	}
	if depth > 0 && len(out) > 60 {
		out = out[:60]
	}
	return out
}

// jsonEqual compares two JSON texts as JSON values (numbers compared exactly as decimal strings
// when both are integers, numerically otherwise).
func jsonEqual(a, b []byte) bool {
	var x, y any
	da := json.NewDecoder(strings.NewReader(string(a)))
	da.UseNumber()
	db := json.NewDecoder(strings.NewReader(string(b)))
	db.UseNumber()
	if da.Decode(&x) != nil || db.Decode(&y) != nil {
		return false
	}
	return jvEqual(x, y)
}

func jvEqual(x, y any) bool {
	switch a := x.(type) {
	case json.Number:
		b, ok := y.(json.Number)
		if !ok {
			return false
		}
		if a.String() == b.String() {
			return true
		}
		fa, e1 := a.Float64()
		fb, e2 := b.Float64()
		if e1 != nil || e2 != nil {
			return false
		}
		_, ia := a.Int64()
		_, ib := b.Int64()
		if ia == nil && ib == nil {
			return false // two different exact integers
		}
		return fa == fb
	case map[string]any:
		b, ok := y.(map[string]any)
		if !ok || len(a) != len(b) {
			return false
		}
		for k, v := range a {
			w, ok := b[k]
			if !ok || !jvEqual(v, w) {
				return false
			}
		}
		return true
	case []any:
		b, ok := y.([]any)
		if !ok || len(a) != len(b) {
			return false
		}
		for i := range a {
			if !jvEqual(a[i], b[i]) {
				return false
			}
		}
		return true
	}
	return reflect.DeepEqual(x, y)
}

// valEqual is the ≡ of C06: deep equality with times as instants, nil ≡ empty for slices and maps,
// raw JSON compared as JSON values, interface numbers numerically.
func valEqual(a, b reflect.Value) bool {
	if a.Type() != b.Type() {
		return false
	}
	t := a.Type()
	if t == tTime || (t.Kind() == reflect.Struct && t.ConvertibleTo(tTime)) {
		return a.Convert(tTime).Interface().(time.Time).Equal(b.Convert(tTime).Interface().(time.Time))
	}
	if t == tRaw {
		ab, bb := a.Bytes(), b.Bytes()
		if len(ab) == 0 && len(bb) == 0 {
			return true
		}
		return jsonEqual(ab, bb)
	}
	switch t.Kind() {
	case reflect.Slice:
		if a.Len() != b.Len() {
			return false
		}
		for i := 0; i < a.Len(); i++ {
			if !valEqual(a.Index(i), b.Index(i)) {
				return false
			}
		}
		return true
	case reflect.Map:
		if a.Len() != b.Len() {
			return false
		}
		it := a.MapRange()
		for it.Next() {
			bv := b.MapIndex(it.Key())
			if !bv.IsValid() || !valEqual(it.Value(), bv) {
				return false
			}
		}
		return true
	case reflect.Struct:
		if isWrapper(t) {
			if it := t.Field(1).Type; it == tRaw || it.Kind() == reflect.Interface {
				// an `any` value holding JSON null and an unset wrapper are the same JSON value
				isNull := func(w reflect.Value) bool {
					if !w.Field(0).Bool() {
						return true
					}
					if it == tRaw {
						return strings.TrimSpace(string(w.Field(1).Bytes())) == "null" || w.Field(1).Len() == 0
					}
					return w.Field(1).IsNil()
				}
				if isNull(a) && isNull(b) {
					return true
				}
			}
			if a.Field(0).Bool() != b.Field(0).Bool() {
				return false
			}
			if !a.Field(0).Bool() {
				return true
			}
			return valEqual(a.Field(1), b.Field(1))
		}
		for i := 0; i < t.NumField(); i++ {
			if !t.Field(i).IsExported() {
				continue
			}
			if !valEqual(a.Field(i), b.Field(i)) {
				return false
			}
		}
		return true
	case reflect.Interface, reflect.Ptr:
		if a.IsNil() || b.IsNil() {
			return a.IsNil() == b.IsNil()
		}
		if t.Kind() == reflect.Interface {
			ja, e1 := json.Marshal(a.Interface())
			jb, e2 := json.Marshal(b.Interface())
			return e1 == nil && e2 == nil && jsonEqual(ja, jb)
		}
		return valEqual(a.Elem(), b.Elem())
	case reflect.Float32, reflect.Float64:
		return a.Float() == b.Float()
	}
	return reflect.DeepEqual(a.Interface(), b.Interface())
}

func showVal(v reflect.Value) string {
	s := fmt.Sprintf("%+v", Abstract(v))
	if len(s) > 300 {
		s = s[:300] + "…"
	}
	return s
}

// shapeOf describes which optional/nullable/collection features of a value are exercised; used as
// the violation class so that one defect maps to few classes.
func shapeOf(v reflect.Value) string {
	feats := map[string]bool{}
	var walk func(v reflect.Value, path string)
	walk = func(v reflect.Value, path string) {
		t := v.Type()
		if t == tTime || t == tRaw {
			return
		}
		switch v.Kind() {
		case reflect.Struct:
			if isWrapper(t) {
				if !v.Field(0).Bool() {
					feats[path+":unset"] = true
				} else {
					walk(v.Field(1), path)
				}
				return
			}
			for i := 0; i < t.NumField(); i++ {
				if t.Field(i).IsExported() {
					walk(v.Field(i), path+"."+t.Field(i).Name)
				}
			}
		case reflect.Slice:
			switch {
			case v.IsNil():
				feats[path+":nil"] = true
			case v.Len() == 0:
				feats[path+":empty"] = true
			default:
				feats[path+fmt.Sprintf(":len%d", min(v.Len(), 2))] = true
				walk(v.Index(0), path+"[]")
			}
		case reflect.Map:
			if v.Len() == 0 {
				feats[path+":nomap"] = true
			} else {
				ks := []string{}
				for _, k := range v.MapKeys() {
					ks = append(ks, k.String())
				}
				sort.Strings(ks)
				feats[path+":keys="+strings.Join(ks, "|")] = true
			}
		case reflect.String:
			if s := v.String(); s != "" && s != "a" {
				feats[path+":str="+fmt.Sprintf("%q", s)] = true
			}
		}
	}
	walk(v, "")
	ks := make([]string, 0, len(feats))
	for k := range feats {
		ks = append(ks, k)
	}
	sort.Strings(ks)
	s := strings.Join(ks, ",")
	if len(s) > 160 {
		s = s[:160]
	}
	return s
}

// firstDiff locates the first difference between two values of one type: a path with indexes and
// keys stripped, plus the reason.
func firstDiff(a, b reflect.Value, path string) string {
	if valEqual(a, b) {
		return ""
	}
	t := a.Type()
	if t == tTime || (t.Kind() == reflect.Struct && t.ConvertibleTo(tTime)) {
		return path + ":time"
	}
	switch t.Kind() {
	case reflect.Struct:
		if isWrapper(t) {
			if a.Field(0).Bool() != b.Field(0).Bool() {
				return path + fmt.Sprintf(":isset %v->%v", a.Field(0).Bool(), b.Field(0).Bool())
			}
			return firstDiff(a.Field(1), b.Field(1), path)
		}
		for i := 0; i < t.NumField(); i++ {
			if t.Field(i).IsExported() {
				if d := firstDiff(a.Field(i), b.Field(i), path+"."+t.Field(i).Name); d != "" {
					return d
				}
			}
		}
	case reflect.Slice:
		if a.Len() != b.Len() {
			return path + ":len"
		}
		for i := 0; i < a.Len(); i++ {
			if d := firstDiff(a.Index(i), b.Index(i), path+"[]"); d != "" {
				return d
			}
		}
	case reflect.Map:
		if a.Len() != b.Len() {
			return path + fmt.Sprintf(":mapsize %d->%d", a.Len(), b.Len())
		}
		return path + ":mapvalue"
	}
	return path + ":" + t.Kind().String()
}

// earlierVariant: the first oneOf struct at which a and b differ in the chosen variant has b (the
// decoded value) at an earlier variant than a.
func (e *valEnum) earlierVariant(a, b reflect.Value) bool {
	t := a.Type()
	if t != b.Type() {
		return false
	}
	chosen := func(v reflect.Value) int {
		for i := 0; i < v.NumField(); i++ {
			if v.Field(i).Field(0).Bool() {
				return i
			}
		}
		return -1
	}
	switch t.Kind() {
	case reflect.Struct:
		if t == tTime {
			return false
		}
		if e.isOneOf(t) {
			ca, cb := chosen(a), chosen(b)
			if ca != cb {
				if ca >= 0 && cb >= 0 && e.variantOrder != nil {
					// "earlier" is a statement about the DOCUMENT's order of alternatives, not about the order of
					// the fields the implementation happens to emit
					pa, oka := e.variantOrder[NormName(t.Field(ca).Name)]
					pb, okb := e.variantOrder[NormName(t.Field(cb).Name)]
					if oka && okb {
						return pb < pa
					}
				}
				return cb >= 0 && cb < ca
			}
			if ca >= 0 {
				return e.earlierVariant(a.Field(ca).Field(1), b.Field(cb).Field(1))
			}
			return false
		}
		if isWrapper(t) {
			if a.Field(0).Bool() && b.Field(0).Bool() {
				return e.earlierVariant(a.Field(1), b.Field(1))
			}
			return false
		}
		for i := 0; i < t.NumField(); i++ {
			if t.Field(i).IsExported() && !valEqual(a.Field(i), b.Field(i)) {
				return e.earlierVariant(a.Field(i), b.Field(i))
			}
		}
	case reflect.Slice:
		for i := 0; i < a.Len() && i < b.Len(); i++ {
			if !valEqual(a.Index(i), b.Index(i)) {
				return e.earlierVariant(a.Index(i), b.Index(i))
			}
		}
	case reflect.Map:
		for _, k := range a.MapKeys() {
			bv := b.MapIndex(k)
			if bv.IsValid() && !valEqual(a.MapIndex(k), bv) {
				return e.earlierVariant(a.MapIndex(k), bv)
			}
		}
	}
	return false
}
