// maporder is the map-iteration-order explorer of property C12. It is built by the check with
// `go build -overlay`, so the goag and kin-openapi it links are the instrumented copies whose map
// iterations are owned by verif/vmap. It explores, for each spec of its job, every iteration order of
// every dynamic map iteration (deviation bound 1; bound 2 inside goag's own packages on request).
package main

import (
	"encoding/json"
	"fmt"
	"os"
	"path/filepath"
	"sort"
	"strings"
	"time"

	"verif/genrun"
	"verif/vmap"
)

type SpecJob struct {
	ID       string `json:"id"`
	Spec     []byte `json:"spec"`
	Client   bool   `json:"client"`
	DNE      bool   `json:"dne"`
	Cors     bool   `json:"cors"`
	BasePath string `json:"basePath"`
}

type Job struct {
	Specs  []SpecJob `json:"specs"`
	Bound2 bool      `json:"bound2"`
	// Bound2Seconds: wall-clock budget of the pair pass in this process (0 = none); when it runs out the
	// pass stops and reports how many first deviations it completed
	Bound2Seconds int    `json:"bound2Seconds"`
	Shard         int    `json:"shard"`
	Shards        int    `json:"shards"`
	Scratch       string `json:"scratch"`
}

type Violation struct {
	Spec    string       `json:"spec"`
	Class   string       `json:"class"` // order-dependent | unowned
	Site    string       `json:"site"`
	Site2   string       `json:"site2,omitempty"`
	Choices []int        `json:"choices"`
	Diff    []string     `json:"diff"`
	Trace   []vmap.Point `json:"trace,omitempty"`
}

type Out struct {
	Runs        int64                        `json:"runs"`
	Points      int64                        `json:"points"`
	Sites       map[string]int64             `json:"sites"`
	Violations  []Violation                  `json:"violations"`
	Base        map[string]map[string]string `json:"base"` // spec id -> file -> hash (all-sorted schedule)
	BaseOutcome map[string]string            `json:"baseOutcome"`
	MaxKeys     int                          `json:"maxKeys"`
	Reduced     int64                        `json:"reduced"` // points with more keys than the full-permutation bound
	// pair pass (bound 2): first deviations (goag point × {swap, reversal}) whose every later goag point was deviated too
	Bound2Runs      int64 `json:"bound2Runs"`
	Bound2UnitsDone int64 `json:"bound2UnitsDone"`
	Bound2Units     int64 `json:"bound2Units"`
	Bound2Capped    bool  `json:"bound2Capped"`
}

type runResult struct {
	outcome string
	hashes  map[string]string
	trace   []vmap.Point
}

var runs int64

func runOnce(scratch string, s *SpecJob, choices []int) runResult {
	dir := filepath.Join(scratch, "out")
	os.RemoveAll(dir)
	vmap.Begin(choices)
	r := genrun.Run(&genrun.Job{ID: s.ID, Spec: s.Spec, OutDir: dir, Package: "gen", Client: s.Client, DoNotEdit: s.DNE, Cors: s.Cors, BasePath: s.BasePath})
	tr := vmap.End()
	runs++
	outcome := r.Outcome
	if r.Outcome != genrun.Success {
		outcome += ": " + r.Msg
	}
	return runResult{outcome, r.Hash, tr}
}

func diff(a, b runResult) []string {
	var d []string
	if a.outcome != b.outcome {
		d = append(d, fmt.Sprintf("outcome: %q vs %q", trunc(a.outcome), trunc(b.outcome)))
	}
	files := map[string]bool{}
	for f := range a.hashes {
		files[f] = true
	}
	for f := range b.hashes {
		files[f] = true
	}
	var fl []string
	for f := range files {
		fl = append(fl, f)
	}
	sort.Strings(fl)
	for _, f := range fl {
		if a.hashes[f] != b.hashes[f] {
			d = append(d, f)
		}
	}
	return d
}

func trunc(s string) string {
	if len(s) > 200 {
		return s[:200]
	}
	return s
}

func isGoag(site string) bool {
	return strings.HasPrefix(site, "goag/") || strings.HasPrefix(site, "specification/") || strings.HasPrefix(site, "generator/")
}

func main() {
	if len(os.Args) < 2 {
		fmt.Fprintln(os.Stderr, "usage: maporder job.json")
		os.Exit(2)
	}
	bs, err := os.ReadFile(os.Args[1])
	if err != nil {
		fmt.Fprintln(os.Stderr, err)
		os.Exit(2)
	}
	var job Job
	if err := json.Unmarshal(bs, &job); err != nil {
		fmt.Fprintln(os.Stderr, err)
		os.Exit(2)
	}
	out := Out{Sites: map[string]int64{}, Base: map[string]map[string]string{}, BaseOutcome: map[string]string{}}
	unit := 0
	type specBase struct {
		s    *SpecJob
		base runResult
	}
	var bases []specBase
	for si := range job.Specs {
		s := &job.Specs[si]
		base := runOnce(job.Scratch, s, nil)
		out.Base[s.ID] = base.hashes
		out.BaseOutcome[s.ID] = base.outcome
		// ownership gate: the same schedule twice must reproduce
		again := runOnce(job.Scratch, s, nil)
		if d := diff(base, again); len(d) > 0 || len(base.trace) != len(again.trace) {
			out.Violations = append(out.Violations, Violation{Spec: s.ID, Class: "unowned", Diff: d})
			continue
		}
		for _, p := range base.trace {
			out.Sites[p.Site]++
			if p.N > out.MaxKeys {
				out.MaxKeys = p.N
			}
			if p.N > vmap.Full {
				out.Reduced++
			}
		}
		out.Points += int64(len(base.trace))
		for i, p := range base.trace {
			unit++
			if job.Shards > 0 && unit%job.Shards != job.Shard {
				continue
			}
			for alt := 1; alt < p.Alts; alt++ {
				choices := make([]int, i+1)
				choices[i] = alt
				r := runOnce(job.Scratch, s, choices)
				if d := diff(base, r); len(d) > 0 {
					out.Violations = append(out.Violations, Violation{Spec: s.ID, Class: "order-dependent", Site: p.Site, Choices: choices, Diff: d})
					break // one witness per point is enough
				}
			}
		}
		bases = append(bases, specBase{s, base})
	}
	// pair pass (bound 2): at every goag point the two extreme orders (swap of the last two keys, full
	// reversal), and under each of them the same two orders at every LATER goag point of that run
	if job.Bound2 {
		start := time.Now()
		pairAlts := func(p vmap.Point) []int {
			if p.Alts <= 1 {
				return nil
			}
			rev := p.Alts - 1 // n <= Full: last permutation in lexicographic order = reversal
			if p.N > vmap.Full {
				rev = p.N // identity, n-1 transpositions, then the reversal
			}
			if rev == 1 {
				return []int{1}
			}
			return []int{1, rev}
		}
		unit2 := 0
	pairs:
		for _, sb := range bases {
			for i, p := range sb.base.trace {
				if !isGoag(p.Site) {
					continue
				}
				unit2++
				if job.Shards > 0 && unit2%job.Shards != job.Shard {
					continue
				}
				out.Bound2Units++
				for _, alt := range pairAlts(p) {
					choices := make([]int, i+1)
					choices[i] = alt
					r := runOnce(job.Scratch, sb.s, choices)
					for j := i + 1; j < len(r.trace); j++ {
						q := r.trace[j]
						if !isGoag(q.Site) {
							continue
						}
						for _, alt2 := range pairAlts(q) {
							if job.Bound2Seconds > 0 && time.Since(start) > time.Duration(job.Bound2Seconds)*time.Second {
								out.Bound2Capped = true
								break pairs
							}
							c2 := make([]int, j+1)
							copy(c2, choices)
							c2[j] = alt2
							r2 := runOnce(job.Scratch, sb.s, c2)
							out.Bound2Runs++
							if d := diff(sb.base, r2); len(d) > 0 {
								out.Violations = append(out.Violations, Violation{Spec: sb.s.ID, Class: "order-dependent", Site: p.Site, Site2: q.Site, Choices: c2, Diff: d})
								break
							}
						}
					}
				}
				out.Bound2UnitsDone++
			}
		}
	}
	out.Runs = runs
	enc := json.NewEncoder(os.Stdout)
	enc.Encode(out)
}
