// check is the single entry point of the verification machinery:
//
//	check <ID> <quick|thorough>
//	check <ID> --replay <file>
//
// It is rebuilt from /repo's working tree by ./check on every call (it links goag).
package main

import (
	"fmt"
	"os"
	"sort"

	"verif/genrun"
	"verif/props"
	"verif/report"
)

func main() {
	if len(os.Args) >= 2 && os.Args[1] == "__worker" {
		genrun.WorkerMain(props.WorkerStats)
		return
	}
	if len(os.Args) < 3 {
		usage()
	}
	id := os.Args[1]
	p, ok := props.Registry[id]
	if !ok {
		fmt.Fprintf(os.Stderr, "unknown property %q\n", id)
		usage()
	}
	if os.Args[2] == "--replay" {
		if len(os.Args) < 4 {
			usage()
		}
		os.Exit(props.Replay(id, os.Args[3]))
	}
	tier := os.Args[2]
	if t := os.Getenv("VERIF_TIER"); t != "" && tier == "" {
		tier = t
	}
	if tier != "quick" && tier != "thorough" {
		usage()
	}
	run := report.NewRun(id, tier)
	func() {
		defer func() {
			if r := recover(); r != nil {
				if ie, ok := r.(props.InternalError); ok {
					fmt.Fprintln(os.Stderr, "internal:", string(ie))
					os.Exit(2)
				}
				panic(r)
			}
		}()
		p(run)
	}()
	os.Exit(run.Finish())
}

func usage() {
	ids := []string{}
	for k := range props.Registry {
		ids = append(ids, k)
	}
	sort.Strings(ids)
	fmt.Fprintf(os.Stderr, "usage: check <ID> <quick|thorough> | check <ID> --replay <file>\nproperties: %v\n", ids)
	os.Exit(2)
}
