// racewarm exists only so that ./setup can compile the driver and its dependencies with -race once.
package main

import _ "verif/drv"

func main() {}
