// Package batch makes emitted code executable: it compiles many generated packages plus the generic
// driver (verif/drv) into one throw-away binary and runs a list of driver jobs through it.
package batch

import (
	"bufio"
	"bytes"
	"encoding/json"
	"fmt"
	"os"
	"os/exec"
	"path/filepath"
	"regexp"
	"sort"
	"strings"
	"sync"

	"verif/drv"
	"verif/genrun"
)

// Batch is one throw-away module.
type Batch struct {
	Dir    string
	Pkgs   []string // package names (directories under gen/)
	Failed map[string]string
	Bin    string
	Env    []string // extra environment for Run
	Stderr string   // stderr of the last Run
}

// PkgDir is where the generator must write package name of this batch.
func PkgDir(root, name string) string { return filepath.Join(root, "gen", name) }

var (
	cacheOnce sync.Once
	cacheDir  string
)

// runCache returns a per-run GOCACHE: a hard-link clone of /verif/.gocache, so that thousands of
// throw-away packages never accumulate in the persistent cache.
func runCache(scratch string) string {
	cacheOnce.Do(func() {
		src := os.Getenv("GOCACHE")
		// the clone must live on the same filesystem as the source for hard links
		dst, err := os.MkdirTemp("/var/tmp", "goag-verif-cache.")
		if err != nil || src == "" {
			cacheDir = src
			return
		}
		if out, err := exec.Command("cp", "-al", src+"/.", dst).CombinedOutput(); err != nil {
			fmt.Fprintf(os.Stderr, "warning: cache clone failed: %v %s\n", err, out)
		}
		cacheDir = dst
	})
	return cacheDir
}

// CleanupCache removes the per-run cache clone.
func CleanupCache() {
	if cacheDir != "" && strings.HasPrefix(cacheDir, "/var/tmp/goag-verif-cache.") {
		os.RemoveAll(cacheDir)
	}
}

var rePkgErr = regexp.MustCompile(`gen/(p[0-9a-z_]+)/`)

// Build writes go.mod/main.go for the packages already generated under root/gen and builds the binary.
// Packages that fail to compile are dropped (reported in Failed) and the rest is rebuilt.
func Build(root string, pkgs []string) (*Batch, error) { return BuildWith(root, pkgs, false) }

// BuildWith: race=true builds with the race detector (needs cgo).
func BuildWith(root string, pkgs []string, race bool) (*Batch, error) {
	b := &Batch{Dir: root, Failed: map[string]string{}}
	gomod := "module batch\n\ngo 1.23\n\nrequire verif v0.0.0\n\nrequire github.com/vkd/goag v0.0.0\n\nreplace verif => /verif\n\nreplace github.com/vkd/goag => /repo\n"
	if err := os.WriteFile(filepath.Join(root, "go.mod"), []byte(gomod), 0o644); err != nil {
		return nil, err
	}
	if sum, err := os.ReadFile("/verif/go.sum"); err == nil {
		os.WriteFile(filepath.Join(root, "go.sum"), sum, 0o644)
	}
	live := append([]string{}, pkgs...)
	sort.Strings(live)
	for attempt := 0; attempt < 6; attempt++ {
		var m bytes.Buffer
		m.WriteString("package main\n\nimport (\n\t\"verif/drv\"\n")
		for _, p := range live {
			fmt.Fprintf(&m, "\t_ \"batch/gen/%s\"\n", p)
		}
		m.WriteString(")\n\nfunc main() { drv.Main() }\n")
		if err := os.WriteFile(filepath.Join(root, "main.go"), m.Bytes(), 0o644); err != nil {
			return nil, err
		}
		bin := filepath.Join(root, "batch.bin")
		args := []string{"build", "-o", bin}
		env := append(os.Environ(), "GOCACHE="+runCache(root), "GOFLAGS=-mod=mod")
		if race {
			args = append(args, "-race")
			env = append(env, "CGO_ENABLED=1")
		}
		cmd := exec.Command("go", append(args, ".")...)
		cmd.Dir = root
		cmd.Env = env
		out, err := cmd.CombinedOutput()
		if err == nil {
			b.Bin = bin
			b.Pkgs = live
			return b, nil
		}
		bad := map[string]bool{}
		for _, l := range strings.Split(string(out), "\n") {
			if mm := rePkgErr.FindStringSubmatch(l); mm != nil {
				if !bad[mm[1]] {
					bad[mm[1]] = true
					b.Failed[mm[1]] = l
				}
			}
		}
		if len(bad) == 0 {
			return nil, fmt.Errorf("batch build failed: %s", out)
		}
		var next []string
		for _, p := range live {
			if !bad[p] {
				next = append(next, p)
			}
		}
		live = next
	}
	return nil, fmt.Errorf("batch build did not converge")
}

// Run executes jobs through the batch binary and returns the results by job id.
func (b *Batch) Run(jobs []drv.Job) (map[string]*drv.Result, error) {
	jf := filepath.Join(b.Dir, "jobs.jsonl")
	rf := filepath.Join(b.Dir, "results.jsonl")
	f, err := os.Create(jf)
	if err != nil {
		return nil, err
	}
	w := bufio.NewWriter(f)
	for _, j := range jobs {
		bs, _ := json.Marshal(j)
		w.Write(bs)
		w.WriteByte('\n')
	}
	w.Flush()
	f.Close()
	cmd := exec.Command(b.Bin, jf, rf)
	cmd.Env = append(os.Environ(), b.Env...)
	var stderr bytes.Buffer
	cmd.Stderr = &stderr
	cmd.Stdout = &stderr
	err = cmd.Run()
	b.Stderr = stderr.String()
	if err != nil {
		return nil, fmt.Errorf("batch run: %v: %s", err, tailStr(stderr.String(), 3000))
	}
	out := map[string]*drv.Result{}
	rfh, err := os.Open(rf)
	if err != nil {
		return nil, err
	}
	defer rfh.Close()
	sc := bufio.NewScanner(rfh)
	sc.Buffer(make([]byte, 1<<20), 256<<20)
	for sc.Scan() {
		var r drv.Result
		if err := json.Unmarshal(sc.Bytes(), &r); err != nil {
			return nil, err
		}
		out[r.ID] = &r
	}
	return out, sc.Err()
}

func tailStr(s string, n int) string {
	if len(s) > n {
		return s[:n]
	}
	return s
}

// GenJob prepares a generator job that writes package name into the batch root, with registry.
func GenJob(root, name string, j *genrun.Job) *genrun.Job {
	j.OutDir = PkgDir(root, name)
	j.Package = name
	j.Static = true
	j.Registry = true
	return j
}
